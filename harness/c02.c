/* stream c02: packet-level decode API on arbitrary packets (lib/info.c, codebook.c, sharedbook.c,
   floor0.c, floor1.c, res0.c, mapping0.c, synthesis.c, block.c)
   ops:
     case <id>
     new                              fresh vorbis_info / vorbis_comment
     hdr <bos> <hexpacket>            vorbis_synthesis_headerin; after an accepted set-up the parse is dumped
     init                             vorbis_synthesis_init + vorbis_block_init
     pkt <hex> <gp> <eos> <seq>       vorbis_synthesis, vorbis_synthesis_blockin, pcmout, read(all)
     track <hex> <gp> <eos> <seq>     vorbis_synthesis_trackonly + blockin
     restart | halfrate <f> | pcmout | readn <n>
     clear                            block/dsp/comment/info clear (twice: idempotence)
*/
#include "common.h"
#include "backends.h"

static vorbis_info c2vi; static vorbis_comment c2vc; static vorbis_dsp_state c2vd; static vorbis_block c2vb;
static int c2_have=0, c2_dsp=0;

static uint32_t c2_hash(uint32_t h,long v){ return h*31u+(uint32_t)v; }

static void c2_dump(void){
  codec_setup_info *ci=c2vi.codec_setup; int i,j,k;
  printf("setup books=%d floors=%d residues=%d maps=%d modes=%d\n",ci->books,ci->floors,ci->residues,ci->maps,ci->modes);
  for(i=0;i<ci->books;i++){
    static_codebook *s=ci->book_param[i]; uint32_t lh=0,qh=0; long nq=0,used=0;
    for(j=0;j<s->entries;j++){ lh=c2_hash(lh,s->lengthlist[j]); if(s->lengthlist[j]>0)used++; }
    if(s->maptype==1) nq=_book_maptype1_quantvals(s); else if(s->maptype==2) nq=s->entries*s->dim;
    for(j=0;j<nq;j++) qh=c2_hash(qh,s->quantlist[j]);
    printf("book %d dim=%ld entries=%ld maptype=%d qmin=%ld qdelta=%ld qquant=%d qseq=%d used=%ld lenhash=%u nq=%ld qhash=%u\n",
           i,s->dim,s->entries,s->maptype,s->q_min,s->q_delta,s->q_quant,s->q_sequencep,used,lh,nq,qh);
  }
  for(i=0;i<ci->floors;i++){
    if(ci->floor_type[i]==0){
      vorbis_info_floor0 *f=ci->floor_param[i];
      printf("floor %d type=0 order=%d rate=%ld barkmap=%ld ampbits=%d ampdB=%d books=",i,f->order,f->rate,f->barkmap,f->ampbits,f->ampdB);
      for(j=0;j<f->numbooks;j++)printf("%s%d",j?",":"",f->books[j]);
      putchar('\n');
    }else{
      vorbis_info_floor1 *f=ci->floor_param[i]; int maxclass=-1,count=0;
      printf("floor %d type=1 parts=%d pclass=",i,f->partitions);
      for(j=0;j<f->partitions;j++){ printf("%s%d",j?",":"",f->partitionclass[j]); if(f->partitionclass[j]>maxclass)maxclass=f->partitionclass[j]; count+=f->class_dim[f->partitionclass[j]]; }
      printf(" classes=");
      for(j=0;j<=maxclass;j++){
        printf("%s%d:%d:%d:",j?",":"",f->class_dim[j],f->class_subs[j],f->class_book[j]);
        for(k=0;k<(1<<f->class_subs[j]);k++)printf("%s%d",k?".":"",f->class_subbook[j][k]);
      }
      printf(" mult=%d posts=",f->mult);
      for(j=0;j<count+2;j++)printf("%s%d",j?",":"",f->postlist[j]);
      putchar('\n');
    }
  }
  for(i=0;i<ci->residues;i++){
    vorbis_info_residue0 *r=ci->residue_param[i]; int acc=0;
    printf("residue %d type=%d begin=%ld end=%ld grouping=%d partitions=%d partvals=%d groupbook=%d stages=",i,ci->residue_type[i],r->begin,r->end,r->grouping,r->partitions,r->partvals,r->groupbook);
    for(j=0;j<r->partitions;j++){ printf("%s%d",j?",":"",r->secondstages[j]); for(k=0;k<8;k++)if(r->secondstages[j]&(1<<k))acc++; }
    printf(" books=");
    for(j=0;j<acc;j++)printf("%s%d",j?",":"",r->booklist[j]);
    putchar('\n');
  }
  for(i=0;i<ci->maps;i++){
    vorbis_info_mapping0 *m=ci->map_param[i];
    printf("map %d submaps=%d chmux=",i,m->submaps);
    if(m->submaps>1)for(j=0;j<c2vi.channels;j++)printf("%s%d",j?",":"",m->chmuxlist[j]);
    printf(" floor=");
    for(j=0;j<m->submaps;j++)printf("%s%d",j?",":"",m->floorsubmap[j]);
    printf(" res=");
    for(j=0;j<m->submaps;j++)printf("%s%d",j?",":"",m->residuesubmap[j]);
    printf(" coupling=");
    for(j=0;j<m->coupling_steps;j++)printf("%s%d:%d",j?",":"",m->coupling_mag[j],m->coupling_ang[j]);
    putchar('\n');
  }
  for(i=0;i<ci->modes;i++){
    vorbis_info_mode *m=ci->mode_param[i];
    printf("mode %d bf=%d wt=%d tt=%d map=%d\n",i,m->blockflag,m->windowtype,m->transformtype,m->mapping);
  }
}

static void c2_clear(void){
  if(c2_dsp){ vorbis_block_clear(&c2vb); vorbis_dsp_clear(&c2vd); vorbis_block_clear(&c2vb); vorbis_dsp_clear(&c2vd); c2_dsp=0; }
  if(c2_have){ vorbis_comment_clear(&c2vc); vorbis_info_clear(&c2vi); vorbis_comment_clear(&c2vc); vorbis_info_clear(&c2vi); c2_have=0; }
}

static int c02_main(int argc,char **argv){
  char *line; char *tok[16];
  while((line=readline_(stdin))){
    int n=split(line,tok,16);
    if(n==0){ free(line); continue; }
    if(!strcmp(tok[0],"case")){
      printf("== case %s\n",n>1?tok[1]:"?"); fflush(stdout); case_watchdog();
      c2_clear();
    }else if(!strcmp(tok[0],"live")){
      vf_live("");
    }else if(!strcmp(tok[0],"new")){
      c2_clear(); vorbis_info_init(&c2vi); vorbis_comment_init(&c2vc); c2_have=1;
    }else if(!strcmp(tok[0],"hdr")&&n>=3&&c2_have){
      bytes_t b=unhex(tok[2]); ogg_packet op; int rc; int hadbooks=((codec_setup_info*)c2vi.codec_setup)?((codec_setup_info*)c2vi.codec_setup)->books:0;
      memset(&op,0,sizeof op); op.packet=b.p; op.bytes=b.n; op.b_o_s=atoi(tok[1]);
      rc=vorbis_synthesis_headerin(&c2vi,&c2vc,&op);
      printf("hdr rc=%s",ovname(rc));
      if(rc==0&&b.n>0&&b.p[0]==1) printf(" ch=%d rate=%ld bs0=%ld bs1=%ld br=%ld,%ld,%ld",c2vi.channels,c2vi.rate,((codec_setup_info*)c2vi.codec_setup)->blocksizes[0],((codec_setup_info*)c2vi.codec_setup)->blocksizes[1],c2vi.bitrate_upper,c2vi.bitrate_nominal,c2vi.bitrate_lower);
      putchar('\n');
      if(rc==0&&b.n>0&&b.p[0]==5&&!hadbooks) c2_dump();
      free(b.p);
    }else if(!strcmp(tok[0],"init")&&c2_have&&!c2_dsp){
      int rc=vorbis_synthesis_init(&c2vd,&c2vi);
      printf("init rc=%d\n",rc);
      if(rc==0){ vorbis_block_init(&c2vd,&c2vb); c2_dsp=1; }
    }else if((!strcmp(tok[0],"pkt")||!strcmp(tok[0],"track"))&&n>=5&&c2_dsp){
      bytes_t b=unhex(tok[1]); ogg_packet op; int rc,brc=-999; long cnt=-1; float **pcm;
      memset(&op,0,sizeof op); op.packet=b.p; op.bytes=b.n; op.granulepos=atoll(tok[2]); op.e_o_s=atoi(tok[3]); op.packetno=atoll(tok[4]);
      rc=tok[0][0]=='p'?vorbis_synthesis(&c2vb,&op):vorbis_synthesis_trackonly(&c2vb,&op);
      printf("%s rc=%s",tok[0],ovname(rc));
      if(rc==0){
        printf(" W=%ld lW=%ld nW=%ld",c2vb.W,c2vb.lW,c2vb.nW);
        brc=vorbis_synthesis_blockin(&c2vd,&c2vb);
        cnt=vorbis_synthesis_pcmout(&c2vd,&pcm);
        if(cnt>0){
          /* touch every sample: ASan sees out-of-bounds, and we check finiteness is not required */
          int c; long i; volatile float acc=0; for(c=0;c<c2vi.channels;c++)for(i=0;i<cnt;i++)acc+=pcm[c][i];
        }
        vorbis_synthesis_read(&c2vd,cnt);
        printf(" brc=%s n=%ld",ovname(brc),cnt);
      }
      putchar('\n');
      free(b.p);
    }else if(!strcmp(tok[0],"restart")&&c2_dsp){
      printf("restart rc=%d\n",vorbis_synthesis_restart(&c2vd));
    }else if(!strcmp(tok[0],"halfrate")&&c2_have&&c2vi.codec_setup){
      printf("halfrate rc=%d\n",vorbis_synthesis_halfrate(&c2vi,atoi(tok[1])));
    }else if(!strcmp(tok[0],"fn")&&n>=3&&!strcmp(tok[1],"ilog")){
      /* the exported functions whose bodies tools/c2lean.py translates: the driver runs the GENERATED Lean on the same arguments */
      printf("fn %d\n",ov_ilog((ogg_uint32_t)strtoul(tok[2],NULL,10)));
    }else if(!strcmp(tok[0],"fn")&&n>=4&&!strcmp(tok[1],"qv")){
      static_codebook sb; memset(&sb,0,sizeof sb); sb.entries=atol(tok[2]); sb.dim=atol(tok[3]);
      if(sb.dim<1||sb.entries>=(1L<<24)) printf("fn refused\n"); else printf("fn %ld\n",_book_maptype1_quantvals(&sb));
    }else if(!strcmp(tok[0],"clear")){
      c2_clear(); printf("cleared\n");
    }else{
      printf("skipped %s\n",tok[0]);
    }
    free(line);
  }
  c2_clear();
  return 0;
}
