/* common helpers of the correspondence harness (vharn) */
#ifndef VHARN_COMMON_H
#define VHARN_COMMON_H
#include <stdio.h>
#include <stdlib.h>
#include <string.h>
#include <stdint.h>
#include <errno.h>
#include <math.h>
#include <ogg/ogg.h>
#include "vorbis/codec.h"
#include "vorbis/vorbisenc.h"
#include "vorbis/vorbisfile.h"
#include "codec_internal.h"
/* exported by lib/block.c for vorbisfile, declared in no header */
extern const float *vorbis_window(vorbis_dsp_state *v,int W);

typedef struct { unsigned char *p; long n; } bytes_t;

static int hexval(int c){
  if(c>='0'&&c<='9')return c-'0';
  if(c>='a'&&c<='f')return c-'a'+10;
  if(c>='A'&&c<='F')return c-'A'+10;
  return -1;
}
/* "-" is the empty string; returns malloc'd buffer (n+1 bytes, NUL terminated for convenience) */
static bytes_t unhex(const char *s){
  bytes_t b; long i,n;
  if(!strcmp(s,"-")){ b.p=calloc(1,1); b.n=0; return b; }
  n=strlen(s)/2;
  b.p=malloc(n+1); b.n=n;
  for(i=0;i<n;i++) b.p[i]=(unsigned char)(hexval(s[2*i])*16+hexval(s[2*i+1]));
  b.p[n]=0;
  return b;
}
static void puthex(const unsigned char *p,long n){
  static const char *d="0123456789abcdef"; long i;
  if(n<=0){ putchar('-'); return; }
  for(i=0;i<n;i++){ putchar(d[p[i]>>4]); putchar(d[p[i]&15]); }
}
static const char *ovname(long rc){
  static char buf[32];
  switch(rc){
  case OV_FALSE: return "OV_FALSE"; case OV_EOF: return "OV_EOF"; case OV_HOLE: return "OV_HOLE";
  case OV_EREAD: return "OV_EREAD"; case OV_EFAULT: return "OV_EFAULT"; case OV_EIMPL: return "OV_EIMPL";
  case OV_EINVAL: return "OV_EINVAL"; case OV_ENOTVORBIS: return "OV_ENOTVORBIS";
  case OV_EBADHEADER: return "OV_EBADHEADER"; case OV_EVERSION: return "OV_EVERSION";
  case OV_ENOTAUDIO: return "OV_ENOTAUDIO"; case OV_EBADPACKET: return "OV_EBADPACKET";
  case OV_EBADLINK: return "OV_EBADLINK"; case OV_ENOSEEK: return "OV_ENOSEEK";
  }
  snprintf(buf,sizeof buf,"%ld",rc); return buf;
}

/* line reader: returns malloc'd line without newline, or NULL at EOF */
static char *readline_(FILE *f){
  size_t cap=0; char *line=NULL; ssize_t n=getline(&line,&cap,f);
  if(n<0){ free(line); return NULL; }
  while(n>0&&(line[n-1]=='\n'||line[n-1]=='\r')) line[--n]=0;
  return line;
}
/* split in place on single spaces; returns token count */
static int split(char *line,char **tok,int max){
  int n=0; char *p=line;
  while(*p&&n<max){
    while(*p==' ')p++;
    if(!*p)break;
    tok[n++]=p;
    while(*p&&*p!=' ')p++;
    if(*p){*p=0;p++;}
  }
  return n;
}
/* a library call that never returns ends the process after VERIF_CASE_TIMEOUT seconds (default 300): the batch runner blames the case
   whose header was printed last and carries on with the next one */
#include <unistd.h>
static void case_watchdog(void){ const char *t=getenv("VERIF_CASE_TIMEOUT"); alarm(t?atoi(t):300); }
#endif
