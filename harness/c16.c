/* stream c16: comment header pack/unpack/query (lib/info.c)
   ops:
     case <id>
     roundtrip <hex>*            build a vorbis_comment with explicit lengths, vorbis_commentheader_out,
                                 then vorbis_synthesis_headerin of that packet
     addtag <taghex> <valhex>    vorbis_comment_add_tag on the pending list (C strings)
     add <hex>                   vorbis_comment_add (C string)
     flush                       pack+unpack the pending list (as roundtrip does)
     unpack <hexpacket>          vorbis_synthesis_headerin on an arbitrary comment packet
     query <taghex> <n>          on the last successfully unpacked list
     count <taghex>
     editrt <seed> <n0> <nadd>   (harness only) a decoded list of n0 entries gets nadd entries through vorbis_comment_add / add_tag, is written and read again
     vfround <seed> <entries> <len|0=mixed> <seekable> <chunk>     (harness only) the list through encoder headers, Ogg pages and ov_open_callbacks / ov_comment
*/
static unsigned char c16_ident[30]={1,'v','o','r','b','i','s',0,0,0,0,2,0x44,0xac,0,0,0,0,0,0,0,0xee,2,0,0,0,0,0,0xb8,1};

static vorbis_comment c16_vc; static int c16_have=0;
static vorbis_comment c16_pending; static int c16_pending_init=0;

static void c16_unpack_packet(unsigned char *pkt,long n){
  vorbis_info vi; ogg_packet op; int rc;
  if(c16_have){ vorbis_comment_clear(&c16_vc); c16_have=0; }
  vorbis_info_init(&vi); vorbis_comment_init(&c16_vc);
  memset(&op,0,sizeof op); op.packet=c16_ident; op.bytes=30; op.b_o_s=1;
  rc=vorbis_synthesis_headerin(&vi,&c16_vc,&op);
  if(rc){ printf("ident rc=%s\n",ovname(rc)); vorbis_info_clear(&vi); return; }
  memset(&op,0,sizeof op); op.packet=pkt; op.bytes=n; op.packetno=1;
  rc=vorbis_synthesis_headerin(&vi,&c16_vc,&op);
  if(rc){
    printf("unpacked rc=%s cleared=%d\n",ovname(rc),
           c16_vc.vendor==NULL&&c16_vc.user_comments==NULL&&c16_vc.comment_lengths==NULL&&c16_vc.comments==0);
  }else{
    int i;
    printf("unpacked rc=0 vendor="); puthex((unsigned char*)c16_vc.vendor,strlen(c16_vc.vendor));
    printf(" n=%d",c16_vc.comments);
    for(i=0;i<c16_vc.comments;i++){ putchar(' '); puthex((unsigned char*)c16_vc.user_comments[i],c16_vc.comment_lengths[i]); }
    putchar('\n');
    c16_have=1;
  }
  vorbis_info_clear(&vi);
}

static void c16_pack_unpack(vorbis_comment *vc){
  ogg_packet op; int rc;
  memset(&op,0,sizeof op);
  rc=vorbis_commentheader_out(vc,&op);
  printf("packed rc=%d ",rc); puthex(op.packet,op.bytes); putchar('\n');
  if(rc==0){
    c16_unpack_packet(op.packet,op.bytes);
    ogg_packet_clear(&op);
  }
}

/* the same round trip through a whole Ogg stream and vorbisfile: the encoder's three headers (comment header of any size: it may span many
   pages) and a little audio are paged into memory, opened with ov_open_callbacks, and ov_comment() is compared entry by entry */
#include "mkstream.h"
static void c16_vfround(long seed,int nent,long len,int seekable,long chunk){
  vorbis_info vi; vorbis_comment vc; vorbis_dsp_state vd; vorbis_block vb; ogg_stream_state os; ogg_page og; ogg_packet op,h0,h1,h2;
  buf_t out={0,0,0}; memsrc ms; OggVorbis_File vf; int i,rc,eos=0,hdrpages=0; long done=0,N=3000; uint32_t st=(uint32_t)(seed*2654435761u+977u)|1;
  vorbis_info_init(&vi);
  if(vorbis_encode_init_vbr(&vi,1,8000,0.1f)){ printf("vfround rc=setup\n"); vorbis_info_clear(&vi); return; }
  vorbis_comment_init(&vc);
  vc.comments=nent; vc.user_comments=calloc(nent+1,sizeof(char*)); vc.comment_lengths=calloc(nent+1,sizeof(int));
  for(i=0;i<nent;i++){ long j,L=len>0?len:(long)(st%97); char *e=malloc(L+1); int k=snprintf(e,L+1,"K%d=",i%7); if(k>L)k=L;
    for(j=k;j<L;j++){ st^=st<<13; st^=st>>17; st^=st<<5; e[j]=(char)(st>>11); } e[L]=0; vc.user_comments[i]=e; vc.comment_lengths[i]=(int)L; st^=st<<13; st^=st>>17; st^=st<<5; }
  vorbis_analysis_init(&vd,&vi); vorbis_block_init(&vd,&vb); ogg_stream_init(&os,4242);
  vorbis_analysis_headerout(&vd,&vc,&h0,&h1,&h2);
  ogg_stream_packetin(&os,&h0); ogg_stream_packetin(&os,&h1); ogg_stream_packetin(&os,&h2);
  while(ogg_stream_flush(&os,&og)){ buf_page(&out,&og); hdrpages++; }
  while(!eos){
    long todo=N-done,j; if(todo>1024)todo=1024;
    if(todo>0){ float **b=vorbis_analysis_buffer(&vd,todo); for(j=0;j<todo;j++)b[0][j]=0.3f*sinf(0.05f*(float)(done+j)); vorbis_analysis_wrote(&vd,todo); done+=todo; }
    else vorbis_analysis_wrote(&vd,0);
    while(vorbis_analysis_blockout(&vd,&vb)==1){ vorbis_analysis(&vb,NULL); vorbis_bitrate_addblock(&vb);
      while(vorbis_bitrate_flushpacket(&vd,&op)){ ogg_stream_packetin(&os,&op); while(ogg_stream_pageout(&os,&og)){ buf_page(&out,&og); if(ogg_page_eos(&og))eos=1; } } }
    if(todo<=0&&!eos){ while(ogg_stream_flush(&os,&og))buf_page(&out,&og); break; }
  }
  ms_init(&ms,out.p,out.n,seekable); ms.chunk=chunk;
  rc=ov_open_callbacks(&ms,&vf,NULL,0,ms_callbacks(seekable));
  if(rc){ printf("vfround rc=%s hdrpages=%d bytes=%ld\n",ovname(rc),hdrpages,out.n); }
  else{
    vorbis_comment *g=ov_comment(&vf,-1); int same=(g&&g->comments==nent&&g->vendor!=NULL); long total=-1;
    for(i=0;same&&i<nent;i++) if(g->comment_lengths[i]!=vc.comment_lengths[i]||memcmp(g->user_comments[i],vc.user_comments[i],vc.comment_lengths[i]))same=0;
    total=(long)ov_pcm_total(&vf,-1);
    printf("vfround rc=0 n=%d same=%d total=%ld hdrpages=%d bytes=%ld\n",g?g->comments:-1,same,total,hdrpages,out.n);
    ov_clear(&vf);
  }
  free(out.p); ogg_stream_clear(&os); vorbis_block_clear(&vb); vorbis_dsp_clear(&vd); vorbis_comment_clear(&vc); vorbis_info_clear(&vi);
}

/* the tag-editor workflow: a list that came out of the decoder (tables sized by _vorbis_unpack_comment, not by vorbis_comment_add) is appended to
   with the public add calls, written again and read back */
static void c16_editrt(long seed,int n0,int nadd){
  vorbis_comment vc,got; vorbis_info vi; ogg_packet op; int i,rc,same=1; uint32_t st=(uint32_t)(seed*2654435761u+31u)|1; char **want=calloc(n0+nadd+1,sizeof(char*));
  vorbis_comment_init(&vc);
  vc.comments=n0; vc.user_comments=calloc(n0+1,sizeof(char*)); vc.comment_lengths=calloc(n0+1,sizeof(int));
  for(i=0;i<n0;i++){ int L=1+(int)(st%23),j; char *e=malloc(L+1); for(j=0;j<L;j++){ st^=st<<13; st^=st>>17; st^=st<<5; e[j]=(char)('a'+st%26); } e[L]=0; if(L>3)e[2]='='; vc.user_comments[i]=e; vc.comment_lengths[i]=L; want[i]=strdup(e); }
  memset(&op,0,sizeof op); rc=vorbis_commentheader_out(&vc,&op); vorbis_comment_clear(&vc);
  if(rc){ printf("editrt rc=pack1\n"); goto out; }
  vorbis_info_init(&vi); vorbis_comment_init(&got);
  { ogg_packet id; memset(&id,0,sizeof id); id.packet=c16_ident; id.bytes=30; id.b_o_s=1; vorbis_synthesis_headerin(&vi,&got,&id); }
  op.packetno=1; rc=vorbis_synthesis_headerin(&vi,&got,&op); ogg_packet_clear(&op);
  if(rc){ printf("editrt rc=unpack1\n"); vorbis_comment_clear(&got); vorbis_info_clear(&vi); goto out; }
  for(i=0;i<nadd;i++){ char buf[64]; st^=st<<13; st^=st>>17; st^=st<<5; snprintf(buf,sizeof buf,"v%u",(unsigned)(st%100000));
    if(i&1){ char full[80]; snprintf(full,sizeof full,"ADDED%d=%s",i,buf); vorbis_comment_add(&got,full); want[n0+i]=strdup(full); }
    else{ char tag[16],full[80]; snprintf(tag,sizeof tag,"TAG%d",i); vorbis_comment_add_tag(&got,tag,buf); snprintf(full,sizeof full,"%s=%s",tag,buf); want[n0+i]=strdup(full); } }
  memset(&op,0,sizeof op); rc=vorbis_commentheader_out(&got,&op); vorbis_comment_clear(&got); vorbis_info_clear(&vi);
  if(rc){ printf("editrt rc=pack2\n"); goto out; }
  vorbis_info_init(&vi); vorbis_comment_init(&got);
  { ogg_packet id; memset(&id,0,sizeof id); id.packet=c16_ident; id.bytes=30; id.b_o_s=1; vorbis_synthesis_headerin(&vi,&got,&id); }
  op.packetno=1; rc=vorbis_synthesis_headerin(&vi,&got,&op); ogg_packet_clear(&op);
  if(rc){ printf("editrt rc=unpack2\n"); }
  else{ if(got.comments!=n0+nadd)same=0; for(i=0;same&&i<n0+nadd;i++) if(got.comment_lengths[i]!=(int)strlen(want[i])||memcmp(got.user_comments[i],want[i],strlen(want[i])))same=0;
    printf("editrt rc=0 n=%d same=%d\n",got.comments,same); }
  vorbis_comment_clear(&got); vorbis_info_clear(&vi);
out:
  for(i=0;i<n0+nadd;i++)free(want[i]); free(want);
}

static int c16_main(int argc,char **argv){
  char *line; char **tok=malloc(sizeof(char*)*70000);
  while((line=readline_(stdin))){
    int n=split(line,tok,70000);
    if(n==0){ free(line); continue; }
    if(!strcmp(tok[0],"case")){
      printf("== case %s\n",n>1?tok[1]:"?"); fflush(stdout); case_watchdog();
      if(c16_pending_init){ vorbis_comment_clear(&c16_pending); c16_pending_init=0; }
    }else if(!strcmp(tok[0],"roundtrip")){
      vorbis_comment vc; int i;
      vorbis_comment_init(&vc);
      vc.comments=n-1;
      vc.user_comments=calloc(n,sizeof(char*));
      vc.comment_lengths=calloc(n,sizeof(int));
      for(i=1;i<n;i++){ bytes_t b=unhex(tok[i]); vc.user_comments[i-1]=(char*)b.p; vc.comment_lengths[i-1]=b.n; }
      c16_pack_unpack(&vc);
      vorbis_comment_clear(&vc);
    }else if(!strcmp(tok[0],"add")||!strcmp(tok[0],"addtag")){
      if(!c16_pending_init){ vorbis_comment_init(&c16_pending); c16_pending_init=1; }
      if(!strcmp(tok[0],"add")){ bytes_t b=unhex(tok[1]); vorbis_comment_add(&c16_pending,(char*)b.p); free(b.p); }
      else{ bytes_t a=unhex(tok[1]),b=unhex(tok[2]); vorbis_comment_add_tag(&c16_pending,(char*)a.p,(char*)b.p); free(a.p); free(b.p); }
    }else if(!strcmp(tok[0],"flush")){
      if(!c16_pending_init){ vorbis_comment_init(&c16_pending); c16_pending_init=1; }
      c16_pack_unpack(&c16_pending);
    }else if(!strcmp(tok[0],"unpack")){
      bytes_t b=unhex(tok[1]); c16_unpack_packet(b.p,b.n); free(b.p);
    }else if(!strcmp(tok[0],"query")){
      bytes_t t=unhex(tok[1]); int k=atoi(tok[2]);
      if(!c16_have){ printf("q nolist\n"); }
      else{
        char *r=vorbis_comment_query(&c16_vc,(char*)t.p,k);
        if(!r) printf("q none\n");
        else{
          int i,idx=-1; long off=-1;
          for(i=0;i<c16_vc.comments;i++)
            if(r>=c16_vc.user_comments[i]&&r<=c16_vc.user_comments[i]+c16_vc.comment_lengths[i]){ idx=i; off=r-c16_vc.user_comments[i]; break; }
          printf("q idx=%d off=%ld\n",idx,off);
        }
      }
      free(t.p);
    }else if(!strcmp(tok[0],"editrt")&&n>=4){
      c16_editrt(atol(tok[1]),atoi(tok[2]),atoi(tok[3]));
    }else if(!strcmp(tok[0],"vfround")&&n>=6){
      c16_vfround(atol(tok[1]),atoi(tok[2]),atol(tok[3]),atoi(tok[4]),atol(tok[5]));
    }else if(!strcmp(tok[0],"count")){
      bytes_t t=unhex(tok[1]);
      if(!c16_have) printf("count nolist\n");
      else printf("count %d\n",vorbis_comment_query_count(&c16_vc,(char*)t.p));
      free(t.p);
    }else{
      printf("bad-op %s\n",tok[0]);
    }
    free(line);
  }
  if(c16_have) vorbis_comment_clear(&c16_vc);
  if(c16_pending_init) vorbis_comment_clear(&c16_pending);
  free(tok);
  return 0;
}
