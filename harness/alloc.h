#ifndef VHARN_ALLOC_H
#define VHARN_ALLOC_H
/* counting allocator (variant "cnt"): the library objects are compiled with -Dmalloc=vf_malloc ...,
   so every block libvorbis/libvorbisenc/libvorbisfile obtain is entered here and every free is
   checked against the table: a block freed twice or never obtained is counted, not passed on. */
#include <stdlib.h>
#include <stdint.h>
#include <string.h>
#define VF_TAB (1u<<20)
static void *vf_ptr[VF_TAB]; static size_t vf_sz[VF_TAB]; static long vf_seq[VF_TAB];
static long vf_blocks=0,vf_bytes=0,vf_badfree=0,vf_total=0;
static unsigned vf_hash(void *p){ uintptr_t x=(uintptr_t)p; x^=x>>17; x*=0x9E3779B97F4A7C15ull; return (unsigned)(x>>40)&(VF_TAB-1); }
static void vf_enter(void *p,size_t n){ unsigned h; if(!p)return; h=vf_hash(p); while(vf_ptr[h]&&vf_ptr[h]!=(void*)1)h=(h+1)&(VF_TAB-1); vf_ptr[h]=p; vf_sz[h]=n; vf_seq[h]=vf_total; vf_blocks++; vf_bytes+=n; vf_total++; }
static int vf_leave(void *p){ unsigned h=vf_hash(p),k=0; while(vf_ptr[h]&&k<VF_TAB){ if(vf_ptr[h]==p){ vf_ptr[h]=(void*)1; vf_blocks--; vf_bytes-=vf_sz[h]; return 1; } h=(h+1)&(VF_TAB-1); k++; } return 0; }
void *vf_malloc(size_t n){ void *p=malloc(n?n:1); vf_enter(p,n); return p; }
void *vf_calloc(size_t a,size_t b){ void *p=calloc(a?a:1,b?b:1); vf_enter(p,a*b); return p; }
void *vf_realloc(void *q,size_t n){ void *p; if(q&&!vf_leave(q)){ vf_badfree++; return NULL; } p=realloc(q,n?n:1); vf_enter(p,n); return p; }
void vf_free(void *p){ if(!p)return; if(!vf_leave(p)){ vf_badfree++; return; } free(p); }
static void vf_live(const char *tag){
#ifdef VARIANT_CNT
  printf("live%s blocks=%ld bytes=%ld badfree=%ld total=%ld\n",tag,vf_blocks,vf_bytes,vf_badfree,vf_total);
  if(getenv("VF_DUMP")){ unsigned h; int k=0; for(h=0;h<VF_TAB&&k<12;h++) if(vf_ptr[h]&&vf_ptr[h]!=(void*)1){ printf("  leaked seq=%ld size=%zu\n",vf_seq[h],vf_sz[h]); k++; } }
#elif defined(__SANITIZE_ADDRESS__)
  /* the counting allocator sees libvorbis' own blocks only; what vorbisfile asked libogg for (stream and sync state buffers) is found by the leak
     scanner of the sanitizer run: blocks no pointer leads to any more, each reported once (needs ASAN_OPTIONS=detect_leaks=1, otherwise 0) */
  { extern int __lsan_do_recoverable_leak_check(void); fflush(stdout); printf("live%s lsan=%d\n",tag,__lsan_do_recoverable_leak_check()); }
#else
  printf("live%s n/a\n",tag);
#endif
}
#endif
