/* stream c04: encode N samples in arbitrary pieces, decode, count (lib/block.c, analysis.c, vorbisfile.c)
   ops:
     case <id>
     enc <ch> <rate> <quality|managed nominal> <sig> <seed> <pagemode> <fill> <chunk1> <chunk2> ... (a chunk of 0 is not allowed; the list is the partition of N; a token x<k> is an over-submission: vorbis_analysis_wrote(k) with no room for it)
         quality: a float in [-0.1,1]; or "m<nominal>" for vorbis_encode_init(ch,rate,-1,nominal,-1); or "M<max>:<nominal>:<min>" for hard limits
   answers (one line per API call of the encoder, then the decode side):
     init rc=.. bs0=.. bs1=..
     buffer n=.. cur=.. storage=..
     wrote n=.. rc=.. cur=.. eof=.. pre=..
     blockout rc=.. nW=.. cur=.. cW=.. eof=.. gp=.. [pkt lW=.. W=.. nW=.. gp=.. eos=.. seq=..]
     dec seq=.. W=.. gp=.. eos=.. rc=.. n=..          packet-API decode of every packet, draining fully
     totals packets=.. decoded=.. vf_total=.. vf_read=.. vf_stream_read=.. holes=..
*/
#include "mkstream.h"

static int c04_main(int argc,char **argv){
  char *line; char **tok=malloc(sizeof(char*)*100000);
  while((line=readline_(stdin))){
    int n=split(line,tok,100000);
    if(n==0){ free(line); continue; }
    if(!strcmp(tok[0],"case")){
      printf("== case %s\n",n>1?tok[1]:"?"); fflush(stdout); case_watchdog();
    }else if(!strcmp(tok[0],"enc")&&n>=8){
      vorbis_info vi; vorbis_comment vc; vorbis_dsp_state vd; vorbis_block vb;
      vorbis_info dvi; vorbis_comment dvc; vorbis_dsp_state dvd; vorbis_block dvb;
      ogg_stream_state os; ogg_page og; ogg_packet op,h0,h1,h2;
      buf_t out={0,0,0}; mk_params P; int rc,k,eos=0; long done=0,total=0,decoded=0,npk=0;
      int ch=atoi(tok[1]); long rate=atol(tok[2]); int pagemode=atoi(tok[6]),fill=atoi(tok[7]);
      codec_setup_info *ci;
      memset(&P,0,sizeof P); P.channels=ch; P.sig=atoi(tok[4]);
      mk_rng_state=(uint32_t)(atol(tok[5])*2654435761u+99u); if(!mk_rng_state)mk_rng_state=1;
      vorbis_info_init(&vi);
      if(tok[3][0]=='Q'){ /* a quality set-up capped by a hard maximum: the signal's natural rate may be far above the cap */
        double q=0.4; long mxk=48; struct ovectl_ratemanage2_arg ai; sscanf(tok[3]+1,"%lf:%ld",&q,&mxk);
        rc=vorbis_encode_setup_vbr(&vi,ch,rate,(float)q);
        if(!rc){ vorbis_encode_ctl(&vi,OV_ECTL_RATEMANAGE2_GET,&ai); ai.management_active=1; ai.bitrate_limit_max_kbps=mxk; ai.bitrate_limit_min_kbps=0; ai.bitrate_average_kbps=0; ai.bitrate_average_damping=1.5; ai.bitrate_limit_reservoir_bits=mxk*2000; ai.bitrate_limit_reservoir_bias=.1;
          rc=vorbis_encode_ctl(&vi,OV_ECTL_RATEMANAGE2_SET,&ai); if(!rc)rc=vorbis_encode_setup_init(&vi); }
      }else if(tok[3][0]=='M'){ long mx=-1,nm=-1,mn=-1; sscanf(tok[3]+1,"%ld:%ld:%ld",&mx,&nm,&mn); rc=vorbis_encode_init(&vi,ch,rate,mx,nm,mn); } /* hard limits */
      else if(tok[3][0]=='D') rc=vorbis_encode_init_vbr(&vi,ch,rate,atof(tok[3]+1));   /* unmanaged, packets taken straight from vorbis_analysis(vb,&op) */
      else if(tok[3][0]=='m') rc=vorbis_encode_init(&vi,ch,rate,-1,atol(tok[3]+1),-1);
      else rc=vorbis_encode_init_vbr(&vi,ch,rate,atof(tok[3]));
      if(rc){ printf("init rc=%s\n",ovname(rc)); vorbis_info_clear(&vi); free(line); continue; }
      ci=vi.codec_setup;
      printf("init rc=0 bs0=%ld bs1=%ld\n",ci->blocksizes[0],ci->blocksizes[1]);
      vorbis_comment_init(&vc);
      vorbis_analysis_init(&vd,&vi); vorbis_block_init(&vd,&vb);
      ogg_stream_init(&os,4242);
      vorbis_analysis_headerout(&vd,&vc,&h0,&h1,&h2);
      /* decoder fed directly from the encoder's packets */
      vorbis_info_init(&dvi); vorbis_comment_init(&dvc);
      vorbis_synthesis_headerin(&dvi,&dvc,&h0); vorbis_synthesis_headerin(&dvi,&dvc,&h1); vorbis_synthesis_headerin(&dvi,&dvc,&h2);
      vorbis_synthesis_init(&dvd,&dvi); vorbis_block_init(&dvd,&dvb);
      ogg_stream_packetin(&os,&h0); ogg_stream_packetin(&os,&h1); ogg_stream_packetin(&os,&h2);
      while(ogg_stream_flush(&os,&og)) buf_page(&out,&og);
      for(k=8;k<=n&&!eos;k++){
        long todo=(k<n)?atol(tok[k]):0; long i; int c; int wr;
        if(k<n&&tok[k][0]=='x'){
          /* an application that submits more than vorbis_analysis_buffer handed out: refused, and the refusal must be a no-op */
          long over=atol(tok[k]+1);
          wr=vorbis_analysis_wrote(&vd,(int)over);
          printf("wrote n=%ld rc=%s cur=%d eof=%ld pre=%d\n",over,ovname(wr),vd.pcm_current,(long)(int)vd.eofflag,vd.preextrapolate);
          continue;
        }
        if(todo>0){
          float **b=vorbis_analysis_buffer(&vd,todo);
          printf("buffer n=%ld cur=%d storage=%d\n",todo,vd.pcm_current,vd.pcm_storage);
          for(c=0;c<ch;c++)for(i=0;i<todo;i++)b[c][i]=mk_sample(&P,c,done+i);
          done+=todo; total+=todo;
        }
        wr=vorbis_analysis_wrote(&vd,todo);
        printf("wrote n=%ld rc=%s cur=%d eof=%ld pre=%d\n",todo,ovname(wr),vd.pcm_current,(long)(int)vd.eofflag,vd.preextrapolate);
        for(;;){
          int r=vorbis_analysis_blockout(&vd,&vb);
          printf("blockout rc=%d nW=%ld cur=%d cW=%ld eof=%ld gp=%lld",r,(long)vd.nW,vd.pcm_current,(long)vd.centerW,(long)(int)vd.eofflag,(long long)vd.granulepos);
          if(r==1) printf(" pkt lW=%ld W=%ld nW=%ld gp=%lld eos=%d seq=%lld",(long)vb.lW,(long)vb.W,(long)vb.nW,(long long)vb.granulepos,(int)vb.eofflag,(long long)vb.sequence);
          putchar('\n');
          if(r!=1)break;
          { int direct=(tok[3][0]=='D'),got;
          if(direct) got=(vorbis_analysis(&vb,&op)==0);
          else{ vorbis_analysis(&vb,NULL); vorbis_bitrate_addblock(&vb); got=vorbis_bitrate_flushpacket(&vd,&op); }
          for(;got;got=direct?0:vorbis_bitrate_flushpacket(&vd,&op)){
            int drc,brc=-999; long cnt=0; float **pcm;
            npk++;
            drc=vorbis_synthesis(&dvb,&op);
            if(drc==0){ brc=vorbis_synthesis_blockin(&dvd,&dvb); cnt=vorbis_synthesis_pcmout(&dvd,&pcm); vorbis_synthesis_read(&dvd,cnt); }
            decoded+=cnt;
            printf("dec seq=%lld W=%ld gp=%lld eos=%ld bytes=%ld rc=%d brc=%d n=%ld\n",(long long)op.packetno,(long)dvb.W,(long long)op.granulepos,(long)op.e_o_s,op.bytes,drc,brc,cnt);
            ogg_stream_packetin(&os,&op);
            for(;;){
              int pr;
              if(pagemode==1) pr=ogg_stream_flush(&os,&og);
              else if(pagemode==2) pr=ogg_stream_pageout_fill(&os,&og,fill);
              else pr=ogg_stream_pageout(&os,&og);
              if(!pr)break;
              buf_page(&out,&og);
              if(ogg_page_eos(&og))eos=1;
            }
          }
          }
        }
      }
      while(ogg_stream_flush(&os,&og)) buf_page(&out,&og);
      {
        /* vorbisfile: seekable total + linear read; streaming read with 1-byte callbacks */
        OggVorbis_File vf; memsrc ms; long vt=-1,vr=0,vs=0,holes=0; float **pcm; int bs;
        ms_init(&ms,out.p,out.n,1);
        if(ov_open_callbacks(&ms,&vf,NULL,0,ms_callbacks(1))==0){
          long r; vt=ov_pcm_total(&vf,-1);
          while((r=ov_read_float(&vf,&pcm,4096,&bs))!=0){ if(r<0){holes++; if(r!=OV_HOLE)break;} else vr+=r; }
          ov_clear(&vf);
        }
        ms_init(&ms,out.p,out.n,0); ms.chunk=1+(total%7);
        if(ov_open_callbacks(&ms,&vf,NULL,0,ms_callbacks(0))==0){
          long r;
          while((r=ov_read_float(&vf,&pcm,333,&bs))!=0){ if(r<0){holes++; if(r!=OV_HOLE)break;} else vs+=r; }
          ov_clear(&vf);
        }else vs=-1;
        printf("totals submitted=%ld packets=%ld decoded=%ld vf_total=%ld vf_read=%ld vf_stream_read=%ld holes=%ld eospage=%d\n",total,npk,decoded,vt,vr,vs,holes,eos);
      }
      free(out.p);
      ogg_stream_clear(&os);
      vorbis_block_clear(&dvb); vorbis_dsp_clear(&dvd); vorbis_comment_clear(&dvc); vorbis_info_clear(&dvi);
      vorbis_block_clear(&vb); vorbis_dsp_clear(&vd); vorbis_comment_clear(&vc); vorbis_info_clear(&vi);
    }else{
      printf("bad-op %s\n",tok[0]);
    }
    free(line);
  }
  free(tok);
  return 0;
}
