/* stream c15: encoder set-up API (lib/vorbisenc.c) and what follows a successful set-up
   ops (each case starts from vorbis_info_init):
     case <id>
     vbr <ch> <rate> <qualitybits-hex32>        vorbis_encode_setup_vbr
     managed <ch> <rate> <max> <nom> <min>      vorbis_encode_setup_managed
     initvbr <ch> <rate> <qualitybits-hex32>    vorbis_encode_init_vbr
     initmanaged <ch> <rate> <max> <nom> <min>  vorbis_encode_init
     setupinit                                   vorbis_encode_setup_init
     rm2 <active> <minK> <maxK> <avgK> <reservoir> <biasbits-hex64> <dampbits-hex64>   OV_ECTL_RATEMANAGE2_SET
     ctl <number> <intarg>                       vorbis_encode_ctl with a double/int argument as the request needs
     encode <n>                                  analysis_init, headerout, encode n samples of noise, clear
   answers:  <op> rc=.. tmpl=.. is=.. req=<num>/<den>|nan|inf|-inf ch=.. rate=.. stone=.. cleared=..
*/
#include "mkstream.h"
const void *c15_setup_list(int i);

static int c15_live=0; static vorbis_info c15vi;

static void c15_state(const char *op,int rc){
  codec_setup_info *ci=c15vi.codec_setup;
  printf("%s rc=%s",op,ovname(rc));
  if(!ci){ printf(" cleared=1 ch=%d rate=%ld\n",c15vi.channels,c15vi.rate); return; }
  {
    highlevel_encode_setup *hi=&ci->hi; int t=-1,i;
    for(i=0;c15_setup_list(i);i++) if(hi->setup==c15_setup_list(i)) t=i;
    printf(" cleared=0 tmpl=%d is=%d managed=%d stone=%d ch=%d rate=%ld req=%a\n",hi->setup?t:-1,hi->setup?(int)hi->base_setting:-1,hi->managed,hi->set_in_stone,c15vi.channels,c15vi.rate,hi->req);
  }
}

static int c15_main(int argc,char **argv){
  char *line; char *tok[16];
  while((line=readline_(stdin))){
    int n=split(line,tok,16);
    if(n==0){ free(line); continue; }
    if(!strcmp(tok[0],"case")){
      printf("== case %s\n",n>1?tok[1]:"?"); fflush(stdout); case_watchdog();
      if(c15_live){ vorbis_info_clear(&c15vi); vorbis_info_clear(&c15vi); }
      vorbis_info_init(&c15vi); c15_live=1;
    }else if(!strcmp(tok[0],"live")){
      vf_live("");
    }else if(!c15vi.codec_setup&&strcmp(tok[0],"clear")){
      printf("%s skipped-cleared\n",tok[0]);      /* the info struct was cleared by a failed one-step call */
    }else if((!strcmp(tok[0],"vbr")||!strcmp(tok[0],"initvbr"))&&n>=4){
      uint32_t b=(uint32_t)strtoul(tok[3],NULL,16); float q; int rc; memcpy(&q,&b,4);
      rc=tok[0][0]=='v'?vorbis_encode_setup_vbr(&c15vi,atol(tok[1]),atol(tok[2]),q):vorbis_encode_init_vbr(&c15vi,atol(tok[1]),atol(tok[2]),q);
      c15_state(tok[0],rc);
    }else if((!strcmp(tok[0],"managed")||!strcmp(tok[0],"initmanaged"))&&n>=6){
      int rc=tok[0][0]=='m'?vorbis_encode_setup_managed(&c15vi,atol(tok[1]),atol(tok[2]),atol(tok[3]),atol(tok[4]),atol(tok[5]))
                           :vorbis_encode_init(&c15vi,atol(tok[1]),atol(tok[2]),atol(tok[3]),atol(tok[4]),atol(tok[5]));
      c15_state(tok[0],rc);
    }else if(!strcmp(tok[0],"setupinit")){
      c15_state(tok[0],vorbis_encode_setup_init(&c15vi));
    }else if(!strcmp(tok[0],"rm2")&&n>=8){
      struct ovectl_ratemanage2_arg ai; uint64_t b; int rc;
      ai.management_active=atoi(tok[1]); ai.bitrate_limit_min_kbps=atol(tok[2]); ai.bitrate_limit_max_kbps=atol(tok[3]); ai.bitrate_average_kbps=atol(tok[4]);
      ai.bitrate_limit_reservoir_bits=atol(tok[5]);
      b=strtoull(tok[6],NULL,16); memcpy(&ai.bitrate_limit_reservoir_bias,&b,8);
      b=strtoull(tok[7],NULL,16); memcpy(&ai.bitrate_average_damping,&b,8);
      rc=vorbis_encode_ctl(&c15vi,OV_ECTL_RATEMANAGE2_SET,&ai);
      c15_state(tok[0],rc);
    }else if(!strcmp(tok[0],"ctl")&&n>=3){
      int num=(int)strtol(tok[1],NULL,0); double d=atof(tok[2]); int iv=atoi(tok[2]); int rc;
      struct ovectl_ratemanage2_arg a2; struct ovectl_ratemanage_arg a1; void *arg=&d;
      memset(&a2,0,sizeof a2); memset(&a1,0,sizeof a1);
      if(num==OV_ECTL_COUPLING_GET||num==OV_ECTL_COUPLING_SET)arg=&iv;
      if(num==OV_ECTL_RATEMANAGE2_GET)arg=&a2;
      if(num==OV_ECTL_RATEMANAGE2_SET){ if(iv){ vorbis_encode_ctl(&c15vi,OV_ECTL_RATEMANAGE2_GET,&a2); arg=&a2; } else arg=NULL; }
      if(num==OV_ECTL_RATEMANAGE_GET||num==OV_ECTL_RATEMANAGE_SET||num==OV_ECTL_RATEMANAGE_AVG||num==OV_ECTL_RATEMANAGE_HARD){ arg=iv?&a1:NULL; if(num==OV_ECTL_RATEMANAGE_GET)arg=&a1; }
      rc=vorbis_encode_ctl(&c15vi,num,arg);
      c15_state(tok[0],rc);
    }else if(!strcmp(tok[0],"encode")&&n>=2){
      vorbis_dsp_state vd; vorbis_block vb; vorbis_comment vc; ogg_packet op,h0,h1,h2; long total=atol(tok[1]),done=0,npk=0,bytes=0; int eos=0,rc;
      codec_setup_info *ci=c15vi.codec_setup;
      if(!ci->hi.set_in_stone){ printf("encode skipped-not-initialised\n"); free(line); continue; }
      rc=vorbis_analysis_init(&vd,&c15vi);
      if(rc){ printf("encode analysis_init=%d\n",rc); free(line); continue; }
      vorbis_block_init(&vd,&vb); vorbis_comment_init(&vc);
      rc=vorbis_analysis_headerout(&vd,&vc,&h0,&h1,&h2);
      { /* header output asked for twice (an application writing the same headers to two destinations): both sets must be complete, equal, and
           accepted by the decoder; every byte handed out is read */
        int hdr2=1;
        if(rc==0){
          ogg_packet g0,g1,g2; unsigned char *c0=malloc(h0.bytes+1),*c1=malloc(h1.bytes+1),*c2=malloc(h2.bytes+1); long b0=h0.bytes,b1=h1.bytes,b2=h2.bytes; int rc2;
          memcpy(c0,h0.packet,b0); memcpy(c1,h1.packet,b1); memcpy(c2,h2.packet,b2);
          rc2=vorbis_analysis_headerout(&vd,&vc,&g0,&g1,&g2);
          if(rc2||g0.bytes!=b0||g1.bytes!=b1||g2.bytes!=b2||memcmp(g0.packet,c0,b0)||memcmp(g1.packet,c1,b1)||memcmp(g2.packet,c2,b2))hdr2=0;
          else{ vorbis_info di; vorbis_comment dc; vorbis_info_init(&di); vorbis_comment_init(&dc);
            if(vorbis_synthesis_headerin(&di,&dc,&g0)||vorbis_synthesis_headerin(&di,&dc,&g1)||vorbis_synthesis_headerin(&di,&dc,&g2))hdr2=0;
            vorbis_comment_clear(&dc); vorbis_info_clear(&di); }
          free(c0); free(c1); free(c2);
        }
        if(!hdr2)rc=-9998;   /* reported through the headerout field: not a documented code */
      }
      mk_rng_state=12345;
      while(!eos&&rc==0){
        long todo=total-done,i; int c;
        if(todo>8192)todo=8192;
        if(todo>0){ float **b=vorbis_analysis_buffer(&vd,todo); int quiet=(n>=3&&!strcmp(tok[2],"silence"))?1:((n>=3&&!strcmp(tok[2],"faint"))?2:0); /* silence / a -80 dB tone: every candidate packet stays tiny, a hard minimum has to pad */
          for(c=0;c<c15vi.channels;c++)for(i=0;i<todo;i++)b[c][i]=quiet==1?0.f:(quiet==2?1e-4f*sinf((done+i)*0.06f):((int)(mk_rand()&0xffff)-32768)/40000.f); vorbis_analysis_wrote(&vd,todo); done+=todo; }
        else vorbis_analysis_wrote(&vd,0);
        while(vorbis_analysis_blockout(&vd,&vb)==1){
          vorbis_analysis(&vb,NULL); vorbis_bitrate_addblock(&vb);
          while(vorbis_bitrate_flushpacket(&vd,&op)){ npk++; bytes+=op.bytes; if(op.bytes<0)bytes=-1000000000; if(op.e_o_s)eos=1; }
        }
        if(todo<=0&&!eos)break;
        if(n>=3&&!strcmp(tok[2],"abort")&&done>=total/2)break;   /* walk away in mid-stream: the clear calls must still release everything */
      }
      printf("encode headerout=%s packets=%ld bytes_ok=%d eos=%d ch=%d rate=%ld\n",ovname(rc),npk,bytes>=0,eos,c15vi.channels,c15vi.rate);
      vorbis_comment_clear(&vc); vorbis_block_clear(&vb); vorbis_dsp_clear(&vd);
    }else if(!strcmp(tok[0],"clear")){
      vorbis_info_clear(&c15vi); vorbis_info_clear(&c15vi); printf("clear done\n");
    }else printf("bad-op %s\n",tok[0]);
    free(line);
  }
  if(c15_live){ vorbis_info_clear(&c15vi); }
  return 0;
}
