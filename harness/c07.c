/* stream c07 (shared by C03, C07-C10, C12, C13, C19, C20): vorbisfile on in-memory physical streams
   ops:
     case <id>
     link <ch> <rate> <q> <n> <sig> <seed> <pagemode> <fill>     append one logical stream to the physical stream under construction
     garbage <nbytes> <seed>                                       append junk bytes (between links)
     damage <kind> <a> <b>                                         mutate the physical stream (see c07_damage)
     table                                                         print the page table of the physical stream (model input)
     open <slot> <seekable> <chunk> [<fault_at> <fault_kind> <persist>]   ov_open_callbacks on handle <slot> (0..3)
     test <slot> <seekable> <chunk> / testopen <slot>              ov_test_callbacks / ov_test_open
     ref <hs>                                                      (re)build the linear reference decode used by the data oracle
     fault <slot> <at_rel> <kind> <persist>                        arm a fault <at_rel> callback invocations from now
     nofault <slot>
     tell|rawtell|timetell <slot>        total|rawtotal|timetotal|serial|bitrate|info <slot> <i>      streams|seekable|instant <slot>
     read <slot> <n>                     ov_read_float(n) + data oracle        readi <slot> <bytes> <be> <word> <sgned>   ov_read
     rawseek|pcmseek|pcmseekpage <slot> <pos>      timeseek|timeseekpage <slot> <millis>      (+ "lap" suffix variants)
     halfrate <slot> <f>      crosslap <slot1> <slot2>      clear <slot>
     errnoise <e>                        successful non-empty reads of every data source leave errno=<e> behind from now on (0: cleared)
   answers are one line per op, beginning with the op name.
*/
#include <unistd.h>
#include "mkstream.h"

#define C7_SLOTS 4
typedef struct { OggVorbis_File vf; memsrc ms; int open; long seq[64];
  /* cross-lap expectation for the next reads: audio that followed the old position, landing position, lap length */
  int lap_valid,lap_oldlink,lap_n,lap_ch1,lap_hs,lap_oldunk,lap_newlink,stale,lap_tail_ok; long lap_k; int ffq_mark; long played; /* samples read since the last seek/open/toggle */ ogg_int64_t lap_oldpos,lap_newpos; } c7_handle;
extern const float *_vorbis_window_get(int n);
static c7_handle c7h[C7_SLOTS];
static buf_t c7_phys={0,0,0};
static long c7_linkoff[65]; static int c7_nlinks=0;
static ogg_stream_state c7_raw_os; static int c7_raw_open=0; static long c7_raw_pkno=0;   /* hand-muxed link under construction */   /* byte range of every 'link' appended */

/* reference linear decode: per hs, concatenated per-link float data (channel-major per read chunk is awkward: store interleaved frames) */
typedef struct { float *data; long frames; int ch; ogg_int64_t start; float *tail; long tailn; int tail_built; } c7_reflink;
static c7_reflink *c7_ref[2]={0,0}; static int c7_refn[2]={0,0};

static void c7_free_ref(int hs){ int i; for(i=0;i<c7_refn[hs];i++){ free(c7_ref[hs][i].data); free(c7_ref[hs][i].tail); } free(c7_ref[hs]); c7_ref[hs]=NULL; c7_refn[hs]=0; }

static void c7_build_ref(int hs){
  OggVorbis_File vf; memsrc ms; float **pcm; int bs=-1; long r;
  c7_free_ref(hs);
  ms_init(&ms,c7_phys.p,c7_phys.n,1);
  if(ov_open_callbacks(&ms,&vf,NULL,0,ms_callbacks(1))) return;
  if(hs&&ov_halfrate(&vf,1)){ ov_clear(&vf); return; }
  c7_refn[hs]=ov_streams(&vf);
  c7_ref[hs]=calloc(c7_refn[hs]+1,sizeof(c7_reflink));
  {
    int i; ogg_int64_t acc=0;
    for(i=0;i<c7_refn[hs];i++){
      ogg_int64_t t=ov_pcm_total(&vf,i); c7_ref[hs][i].ch=ov_info(&vf,i)->channels; c7_ref[hs][i].start=acc; acc+=t;
      c7_ref[hs][i].data=malloc(sizeof(float)*(size_t)(((t>>hs)+2)*c7_ref[hs][i].ch+16)); c7_ref[hs][i].frames=0;
    }
  }
  { int errs=0;
  while((r=ov_read_float(&vf,&pcm,4096,&bs))!=0){
    if(r<0){ if(++errs>64)break; continue; } /* a persistent error (e.g. a set-up whose decoder cannot be built) must not spin */
    errs=0;
    if(bs>=0&&bs<c7_refn[hs]){
      c7_reflink *L=&c7_ref[hs][bs]; long j; int c;
      ogg_int64_t cap=(ov_pcm_total(&vf,bs)>>hs)+2;
      for(j=0;j<r&&L->frames<cap;j++,L->frames++) for(c=0;c<L->ch;c++) L->data[L->frames*L->ch+c]=pcm[c][j];
    }
  }
  }
  ov_clear(&vf);
}

/* what a lapped seek takes as "the audio that would have been read next" when the old position is at the end of a link: the decoder's
   overlap half (vorbis_synthesis_lapout) of a handle that was simply played to that end with plain reads — built on demand */
static void c7_build_tail(int hs,int li){
  OggVorbis_File vf; memsrc ms; float **pcm; int bs=-1,errs=0; c7_reflink *L=&c7_ref[hs][li]; ogg_int64_t end;
  L->tail_built=1; L->tail=NULL; L->tailn=0;
  ms_init(&ms,c7_phys.p,c7_phys.n,1);
  if(ov_open_callbacks(&ms,&vf,NULL,0,ms_callbacks(1))) return;
  if(hs&&ov_halfrate(&vf,1)){ ov_clear(&vf); return; }
  if(li>=ov_streams(&vf)){ ov_clear(&vf); return; }
  end=L->start+ov_pcm_total(&vf,li);
  while(ov_pcm_tell(&vf)<end){
    ogg_int64_t want=(end-ov_pcm_tell(&vf))>>hs; long r;
    if(want<1)want=1; if(want>4096)want=4096;
    r=ov_read_float(&vf,&pcm,(int)want,&bs);
    if(r==0)break;
    if(r<0&&++errs>64)break;
  }
  if(ov_pcm_tell(&vf)>=end&&ov_pcm_tell(&vf)<=end+hs&&vf.ready_state==INITSET&&vf.seekable&&vf.current_link==li){
    int n=vorbis_synthesis_lapout(&vf.vd,&pcm),c; long j;
    if(n>0){ L->tail=malloc(sizeof(float)*(size_t)n*L->ch); L->tailn=n;
      for(j=0;j<n;j++)for(c=0;c<L->ch;c++)L->tail[j*L->ch+c]=pcm[c][j]; }
  }
  ov_clear(&vf);
}

/* data oracle: do the r frames just read (from link bs, starting at pcm position pos) equal the reference? returns 1 ok, 0 mismatch, -1 no reference */
static long c7_mis_n,c7_mis_first,c7_mis_last;
static int c7_check1(c7_reflink *L,float **pcm,long r,ogg_int64_t rel){
  long j; int c;
  c7_mis_n=0; c7_mis_first=c7_mis_last=-1;
  if(rel<0||rel+r>L->frames)return 0;
  for(j=0;j<r;j++){ int bad=0; for(c=0;c<L->ch;c++) if(memcmp(&L->data[(rel+j)*L->ch+c],&pcm[c][j],4))bad=1;
    if(bad){ if(c7_mis_first<0)c7_mis_first=j; c7_mis_last=j; c7_mis_n++; } }
  return c7_mis_n==0;
}
static int c7_check(int hs,float **pcm,long r,int bs,ogg_int64_t pos){
  c7_reflink *L; ogg_int64_t rel; int d,nodd=0,i;
  c7_mis_n=0; c7_mis_first=c7_mis_last=-1;
  if(!c7_ref[hs]||bs<0||bs>=c7_refn[hs])return -1;
  L=&c7_ref[hs][bs]; rel=pos-L->start;
  if(rel<0)return 0;
  if(!hs)return c7_check1(L,pcm,r,rel);
  /* half rate: a sample stands for two positions, a link of odd length N delivers (N+1)/2 samples and the position advances by two
     per sample, so a linear read labels the samples of a later link one higher for every odd-length link it has crossed since the
     last seek (a seek labels them exactly): accept the sample index for any such drift */
  for(i=0;i<bs;i++) if((c7_ref[hs][i+1<c7_refn[hs]?i+1:i].start-c7_ref[hs][i].start)&1) nodd++;
  for(d=0;d<=nodd;d++) if(rel-d>=0&&c7_check1(L,pcm,r,(rel-d)>>1)) return 1;
  c7_check1(L,pcm,r,rel>>1);
  return 0;
}

/* decode one link's bytes through the packet-level API alone (libogg + vorbis_synthesis*), as examples/decoder_example.c does,
   and compare with the vorbisfile reference of that link */
static void c7_refpk(int hs,int li){
  ogg_sync_state oy; ogg_stream_state os; ogg_page og; ogg_packet op; vorbis_info vi; vorbis_comment vc; vorbis_dsp_state vd; vorbis_block vb;
  int have_os=0,hdr=0,inited=0,bad=0,r; long frames=0,mism=0; float **pcm; long n=c7_linkoff[li+1]-c7_linkoff[li];
  c7_reflink *L=(c7_ref[hs]&&li<c7_refn[hs])?&c7_ref[hs][li]:NULL;
  ogg_sync_init(&oy); vorbis_info_init(&vi); vorbis_comment_init(&vc);
  { char *b=ogg_sync_buffer(&oy,n); memcpy(b,c7_phys.p+c7_linkoff[li],n); ogg_sync_wrote(&oy,n); }
  while((r=ogg_sync_pageout(&oy,&og))!=0&&!bad){
    if(r<0)continue;
    if(!have_os){ ogg_stream_init(&os,ogg_page_serialno(&og)); have_os=1; }
    if(ogg_stream_pagein(&os,&og)<0)continue;
    while(!bad&&(r=ogg_stream_packetout(&os,&op))!=0){
      if(r<0){ bad=2; break; }
      if(hdr<3){
        if(vorbis_synthesis_headerin(&vi,&vc,&op)<0){ bad=1; break; }
        if(++hdr==3){ if(hs&&vorbis_synthesis_halfrate(&vi,1)){ bad=3; break; } if(vorbis_synthesis_init(&vd,&vi)){ bad=1; break; } vorbis_block_init(&vd,&vb); inited=1; }
        continue;
      }
      if(vorbis_synthesis(&vb,&op)==0) vorbis_synthesis_blockin(&vd,&vb);
      { int samples; while((samples=vorbis_synthesis_pcmout(&vd,&pcm))>0){ long j; int c;
          for(j=0;j<samples;j++,frames++){ if(!L||frames>=L->frames||vi.channels!=L->ch){ mism++; continue; }
            for(c=0;c<vi.channels;c++) if(memcmp(&L->data[frames*L->ch+c],&pcm[c][j],4)){ mism++; break; } }
          vorbis_synthesis_read(&vd,samples); } }
    }
  }
  printf("refpk hs=%d link=%d frames=%ld ref=%ld ch=%d same=%d bad=%d\n",hs,li,frames,L?L->frames:-1,vi.channels,(L&&mism==0&&frames==L->frames)?1:0,bad);
  if(inited){ vorbis_block_clear(&vb); vorbis_dsp_clear(&vd); }
  if(have_os)ogg_stream_clear(&os);
  vorbis_comment_clear(&vc); vorbis_info_clear(&vi); ogg_sync_clear(&oy);
}

/* expected output inside a cross-lapped region: new*w^2 + old*(1-w^2) on the channels both have, new*w^2 on extra new channels.
   returns 1 all samples as expected, 0 mismatch, 2 the old audio is not in the reference (end of link: overlap half) so only the
   part beyond the lap region was compared */
static int c7_check_lap(c7_handle *H,int hs,float **pcm,long r,int bs,ogg_int64_t pos){
  c7_reflink *Ln,*Lo; long j; int c,unknown=0; const float *w; int widx=0,k;
  c7_mis_n=0; c7_mis_first=c7_mis_last=-1;
  if(!c7_ref[hs]||bs<0||bs>=c7_refn[hs]||H->lap_oldlink<0||H->lap_oldlink>=c7_refn[hs])return -1;
  Ln=&c7_ref[hs][bs]; Lo=&c7_ref[hs][H->lap_oldlink];
  for(k=H->lap_n;k>32;k>>=1)widx++;
  w=_vorbis_window_get(widx);
  for(j=0;j<r;j++){
    ogg_int64_t reln=((pos-Ln->start)>>hs)+j;               /* index into the new link's reference */
    ogg_int64_t li=((pos-H->lap_newpos)>>hs)+j;              /* index into the lap region */
    int bad=0;
    if(reln<0||reln>=Ln->frames){ bad=1; }
    else for(c=0;c<Ln->ch;c++){
      float d=Ln->data[reln*Ln->ch+c],e;
      if(li>=0&&li<H->lap_n&&bs==H->lap_newlink){
        float wd=w[li]*w[li];
        if(li>=H->lap_k){ unknown=1; continue; } /* past the primed output: spliced before the block overlap, not comparable */
        if(c<H->lap_ch1){
          ogg_int64_t relo=((H->lap_oldpos-Lo->start)>>hs)+li; float ws=1.-wd,sv;
          if(H->lap_oldunk||relo<0){ unknown=1; continue; }
          if(relo>=Lo->frames){                              /* past the end of the old link: the decoder's overlap half */
            if(!H->lap_tail_ok){ unknown=1; continue; }        /* the old handle got to the end by a seek: its overlap half is not that of a play-through */
            if(!Lo->tail_built)c7_build_tail(hs,H->lap_oldlink);
            if(!Lo->tail||relo-Lo->frames>=Lo->tailn){ unknown=1; continue; }
            sv=Lo->tail[(relo-Lo->frames)*Lo->ch+c];
          }else sv=Lo->data[relo*Lo->ch+c];
          e=d*wd + sv*ws;
        }else e=d*wd;
      }else e=d;
      if(memcmp(&e,&pcm[c][j],4))bad=1;
    }
    if(bad){ if(c7_mis_first<0)c7_mis_first=j; c7_mis_last=j; c7_mis_n++; }
  }
  if(((pos-H->lap_newpos)>>hs)+r>=H->lap_n)H->lap_valid=0;
  if(c7_mis_n)return 0;
  return unknown?2:1;
}

static void c7_table(void){
  /* page table via libogg; per serial a stream state to count completed packets and fetch their first bytes */
  ogg_sync_state oy; ogg_page og; long off=0; int npages=0;
  typedef struct { long serial; ogg_stream_state os; int used; int hdrs; } sst;
  sst st[64]; int nst=0,i;
  ogg_sync_init(&oy);
  { char *b=ogg_sync_buffer(&oy,c7_phys.n); memcpy(b,c7_phys.p,c7_phys.n); ogg_sync_wrote(&oy,c7_phys.n); }
  printf("table bytes=%ld\n",c7_phys.n);
  for(;;){
    long r=ogg_sync_pageseek(&oy,&og);
    if(r==0)break;
    if(r<0){ off+=-r; continue; }
    {
      long serial=ogg_page_serialno(&og); sst *s=NULL; ogg_packet op; int npk=0; int res;
      for(i=0;i<nst;i++)if(st[i].serial==serial&&st[i].used)s=&st[i];
      if(ogg_page_bos(&og)||!s){
        if(s){ ogg_stream_clear(&s->os); s->used=0; }
        if(nst<64){ s=&st[nst++]; s->serial=serial; s->used=1; s->hdrs=0; ogg_stream_init(&s->os,serial); }
      }
      printf("pg off=%ld len=%ld hlen=%ld serial=%ld pageno=%ld gran=%lld bos=%d eos=%d cont=%d tail=%d pk=",off,r,og.header_len,serial,ogg_page_pageno(&og),
             (long long)ogg_page_granulepos(&og),ogg_page_bos(&og)!=0,ogg_page_eos(&og)!=0,ogg_page_continued(&og)!=0,
             og.header[26]>0&&og.header[27+og.header[26]-1]==255);
      if(s){
        ogg_stream_pagein(&s->os,&og);
        while((res=ogg_stream_packetout(&s->os,&op))!=0){
          if(res<0){ printf("%shole",npk?",":""); npk++; continue; }
          /* bytes:first two bytes:gran:eos ; header packets are given in full on separate lines */
          printf("%s%ld:%02x%02x:%lld:%ld",npk?",":"",op.bytes,op.bytes>0?op.packet[0]:0,op.bytes>1?op.packet[1]:0,(long long)op.granulepos,(long)op.e_o_s);
          npk++;
          if(op.bytes>0&&(op.packet[0]&1)&&s->hdrs<3){ /* header packet */ }
        }
      }
      if(!npk)putchar('-');
      putchar('\n');
      /* header packets in full (the model parses them itself) */
      if(ogg_page_bos(&og)||1){
        /* re-walk this page's packets cheaply: second stream state */
      }
      npages++;
      off+=r;
    }
  }
  printf("tableend pages=%d stalls=",npages);
  /* where libogg's page hunt comes to rest at end of file: an 'O' with fewer than 27 bytes after it, or a capture pattern whose header or body
     would run past the end (ogg_sync_pageseek returns 0, "need more data", and there is none) */
  { long q,nq=0; const unsigned char *d=(const unsigned char*)c7_phys.p; long n=c7_phys.n;
    for(q=0;q<n;q++) if(d[q]=='O'){
      long bytes=n-q; int st=0;
      if(bytes<27)st=1;
      else if(!memcmp(d+q,"OggS",4)){ long hb=27+d[q+26],bb=0,k; if(bytes<hb)st=1; else{ for(k=0;k<d[q+26];k++)bb+=d[q+27+k]; if(hb+bb>bytes)st=1; } }
      if(st){ printf("%s%ld",nq?",":"",q); nq++; }
    }
    if(!nq)putchar('-'); }
  putchar('\n');
  for(i=0;i<nst;i++)if(st[i].used)ogg_stream_clear(&st[i].os);
  ogg_sync_clear(&oy);
}

/* the three header packets of every link, in physical order, for the model */
static void c7_headers(void){
  ogg_sync_state oy; ogg_page og; long off=0; int i,nst=0;
  typedef struct { long serial; ogg_stream_state os; int cnt; int live; long bos; } hst;
  static hst st[128];
  ogg_sync_init(&oy);
  { char *b=ogg_sync_buffer(&oy,c7_phys.n); memcpy(b,c7_phys.p,c7_phys.n); ogg_sync_wrote(&oy,c7_phys.n); }
  for(;;){
    long r=ogg_sync_pageseek(&oy,&og); ogg_packet op; hst *s=NULL; long serial;
    if(r==0)break;
    if(r<0){ off+=-r; continue; }
    serial=ogg_page_serialno(&og);
    if(ogg_page_bos(&og)&&nst<128){
      for(i=0;i<nst;i++)if(st[i].live&&st[i].serial==serial){ ogg_stream_clear(&st[i].os); st[i].live=0; }
      s=&st[nst++]; s->serial=serial; s->cnt=0; s->live=1; s->bos=off; ogg_stream_init(&s->os,serial);
    }else for(i=nst-1;i>=0;i--)if(st[i].live&&st[i].serial==serial){ s=&st[i]; break; }
    if(s&&s->cnt<3){
      ogg_stream_pagein(&s->os,&og);
      while(s->cnt<3&&ogg_stream_packetout(&s->os,&op)>0){ printf("hdrpk serial=%ld k=%d bos=%ld ",serial,s->cnt,s->bos); puthex(op.packet,op.bytes); putchar('\n'); s->cnt++; }
    }
    off+=r;
  }
  for(i=0;i<nst;i++)if(st[i].live)ogg_stream_clear(&st[i].os);
  ogg_sync_clear(&oy);
}

static void c7_damage(int kind,long a,long b){
  /* 1: truncate to a bytes; 2: zero b bytes at a; 3: flip bit b of byte a; 4: delete bytes [a,a+b); 5: duplicate bytes [a,a+b) in place */
  if(a<0)a=0; if(a>c7_phys.n)a=c7_phys.n;
  if(kind==1){ c7_phys.n=a; }
  else if(kind==2){ long i; for(i=a;i<a+b&&i<c7_phys.n;i++)c7_phys.p[i]=0; }
  else if(kind==3){ if(a<c7_phys.n)c7_phys.p[a]^=(1<<(b&7)); }
  else if(kind==4){ if(a+b>c7_phys.n)b=c7_phys.n-a; memmove(c7_phys.p+a,c7_phys.p+a+b,c7_phys.n-a-b); c7_phys.n-=b; }
  else if(kind==5){ if(a+b>c7_phys.n)b=c7_phys.n-a; if(b>0){ unsigned char *t=malloc(b); memcpy(t,c7_phys.p+a,b); buf_add(&c7_phys,t,b); memmove(c7_phys.p+a+b,c7_phys.p+a,c7_phys.n-b-a); memcpy(c7_phys.p+a,t,b); free(t);} }
}

/* page-level damage: the physical stream is cut into its pages (and the junk between them), edited, and glued together again.
   kinds: 6 delete page i; 7 duplicate page i; 8 swap pages i and j; 9 serial of page i := v; 10 granule position of page i := v;
   11 header-type flags of page i ^= v; 12 page sequence number of page i := v; 13 v junk bytes inserted in front of page i;
   14/15 split a page inside its first packet (see c7_pagesplit).
   Edited pages get a fresh CRC. */
typedef struct { long off,len; int ispage; } c7_seg;
static int c7_segments(buf_t *b,c7_seg *seg,int max){
  ogg_sync_state oy; ogg_page og; long off=0; int n=0;
  ogg_sync_init(&oy);
  { char *d=ogg_sync_buffer(&oy,b->n); memcpy(d,b->p,b->n); ogg_sync_wrote(&oy,b->n); }
  for(;n<max;){
    long r=ogg_sync_pageseek(&oy,&og);
    if(r==0)break;
    if(r<0){ seg[n].off=off; seg[n].len=-r; seg[n].ispage=0; n++; off+=-r; continue; }
    seg[n].off=off; seg[n].len=r; seg[n].ispage=1; n++; off+=r;
  }
  if(off<b->n&&n<max){ seg[n].off=off; seg[n].len=b->n-off; seg[n].ispage=0; n++; }
  ogg_sync_clear(&oy);
  return n;
}
static void c7_recrc(unsigned char *pg,long len){
  ogg_page og; og.header=pg; og.header_len=27+pg[26]; og.body=pg+og.header_len; og.body_len=len-og.header_len;
  if(og.body_len>=0)ogg_page_checksum_set(&og);
}
static void c7_pagedamage(int kind,long i,long j,long long v){
  static c7_seg seg[4096]; int n=c7_segments(&c7_phys,seg,4096),k,np=0; int idx[4096]; buf_t out={0,0,0};
  /* kinds 100+k: like kind k, but <i>,<j> count beginning-of-stream pages only (the pages that open a link: its Vorbis stream and any multiplexed one) */
  if(kind>=100){ kind-=100; for(k=0;k<n;k++)if(seg[k].ispage&&seg[k].len>=27&&(c7_phys.p[seg[k].off+5]&2))idx[np++]=k; }
  else for(k=0;k<n;k++)if(seg[k].ispage)idx[np++]=k;
  if(np==0)return;
  i=((i%np)+np)%np; j=((j%np)+np)%np;
  for(k=0;k<n;k++){
    int me=(k==idx[i]);
    unsigned char *src=c7_phys.p+seg[k].off; long len=seg[k].len;
    if(kind==13&&me){ long q; uint32_t st=(uint32_t)(v*2654435761u+k)|1; for(q=0;q<v&&q<4000000;q++){ unsigned char c; st^=st<<13; st^=st>>17; st^=st<<5; c=st&255; if(c=='O')c='o'; buf_add(&out,&c,1); } }
    if(kind==6&&me)continue;
    if(kind==17&&k>idx[i])continue;                           /* the file ends with page i */
    if(kind==8&&(k==idx[i]||k==idx[j])){ int o=(k==idx[i])?idx[j]:idx[i]; buf_add(&out,c7_phys.p+seg[o].off,seg[o].len); continue; }
    {
      long at=out.n; buf_add(&out,src,len);
      if(me&&len>=27){
        unsigned char *pg=out.p+at;
        if(kind==9){ pg[14]=v&255; pg[15]=(v>>8)&255; pg[16]=(v>>16)&255; pg[17]=(v>>24)&255; c7_recrc(pg,len); }
        else if(kind==10){ int b; for(b=0;b<8;b++)pg[6+b]=(unsigned char)((unsigned long long)v>>(8*b)); c7_recrc(pg,len); }
        else if(kind==11){ pg[5]^=(unsigned char)v; c7_recrc(pg,len); }
        else if(kind==24){ /* the j-th packet BEGINNING on this page gets its packet-type bit set (an audio packet turned into something the decoder refuses) */
          long h=27+pg[26],off=h; int sgi=0,pk=0,cont=(pg[5]&1),done=0;
          while(sgi<pg[26]&&!done){ long plen=0; int first=sgi; while(sgi<pg[26]){ plen+=pg[27+sgi]; if(pg[27+sgi++]<255)break; }
            if(!(first==0&&cont)){ if(pk==(int)j){ if(off<len){ pg[off]|=1; c7_recrc(pg,len); } done=1; } pk++; }
            off+=plen; } }
        else if(kind==21){ long h=27+pg[26]; if(len>h+2){ pg[h+1]^=0x20; c7_recrc(pg,len); } }   /* "\001vorbis" -> "\001Vorbis": the stream this page opens is not Vorbis any more */
        else if(kind==12){ pg[18]=v&255; pg[19]=(v>>8)&255; pg[20]=(v>>16)&255; pg[21]=(v>>24)&255; c7_recrc(pg,len); }
      }
      if(kind==7&&me)buf_add(&out,src,len);
      if(kind==22&&me){ /* behind page i: a capture pattern announcing the largest possible page (255 segments of 255 bytes) with a checksum that
                           cannot match, then v junk bytes — the sync layer has to buffer 64 kB before it can dismiss it */
        unsigned char h[27+255]; long q; uint32_t st=(uint32_t)(v*2654435761u+k)|1; memset(h,0,sizeof h); memcpy(h,"OggS",4); h[5]=0; h[14]=0x11; h[22]=0xde; h[23]=0xad; h[26]=255; memset(h+27,255,255);
        buf_add(&out,h,sizeof h); for(q=0;q<v&&q<200000;q++){ unsigned char c; st^=st<<13; st^=st>>17; st^=st<<5; c=st&255; if(c=='O')c='o'; buf_add(&out,&c,1); } }
    }
  }
  free(c7_phys.p); c7_phys=out;
}
/* not damage either: the logical stream that page i belongs to gets <v> added to the granule position of every audio page (a link cut out of a longer
   stream, or an encoder that keeps counting across links: a link's positions need not start at zero) */
static void c7_granshift(long i,long long v){
  static c7_seg seg[4096]; int n=c7_segments(&c7_phys,seg,4096),k,np=0,npk=0,have=0; int idx[4096]; ogg_stream_state os; long serial=0;
  for(k=0;k<n;k++)if(seg[k].ispage)idx[np++]=k;
  if(np==0)return;
  i=((i%np)+np)%np; { unsigned char *pg=c7_phys.p+seg[idx[i]].off; serial=(long)(pg[14]|(pg[15]<<8)|(pg[16]<<16)|((unsigned long)pg[17]<<24)); }
  { /* only streams whose audio spans at least two pages with a granule position: on a one-page stream the shift would change the stream's length by the
       format's own first-page rule, and the caller's bookkeeping assumes lengths stay */
    int hp=0,ap=0,cnt=0,have2=0; ogg_stream_state o2;
    for(k=0;k<np;k++){ unsigned char *pg=c7_phys.p+seg[idx[k]].off; long len=seg[idx[k]].len; long s2=(long)(pg[14]|(pg[15]<<8)|(pg[16]<<16)|((unsigned long)pg[17]<<24)); ogg_page og; ogg_packet op; long long g=0; int b;
      if(s2!=serial||len<27)continue;
      og.header=pg; og.header_len=27+pg[26]; og.body=pg+og.header_len; og.body_len=len-og.header_len;
      if(!have2){ ogg_stream_init(&o2,(int)serial); have2=1; }
      if(cnt>=3){ for(b=7;b>=0;b--)g=(g<<8)|pg[6+b]; if(g!=-1)ap++; }
      else{ ogg_stream_pagein(&o2,&og); while(ogg_stream_packetout(&o2,&op)>0)cnt++; hp++; } }
    if(have2)ogg_stream_clear(&o2);
    if(ap<2)return;
  }
  for(k=0;k<np;k++){
    unsigned char *pg=c7_phys.p+seg[idx[k]].off; long len=seg[idx[k]].len; long s2=(long)(pg[14]|(pg[15]<<8)|(pg[16]<<16)|((unsigned long)pg[17]<<24)); ogg_page og; ogg_packet op;
    if(s2!=serial||len<27)continue;
    og.header=pg; og.header_len=27+pg[26]; og.body=pg+og.header_len; og.body_len=len-og.header_len;
    if(!have){ ogg_stream_init(&os,(int)serial); have=1; }
    if(npk>=3){ long long g=0; int b; for(b=7;b>=0;b--)g=(g<<8)|pg[6+b]; if(g!=-1){ g+=v; for(b=0;b<8;b++)pg[6+b]=(unsigned char)((unsigned long long)g>>(8*b)); c7_recrc(pg,len); } }
    else{ ogg_stream_pagein(&os,&og); while(ogg_stream_packetout(&os,&op)>0)npk++; }
  }
  if(have)ogg_stream_clear(&os);
}
/* legal re-pagination (not damage): page i is cut inside its first packet — the first v 255-byte segments go to a page of their own that
   completes no packet (granule position -1), the rest follows on a page flagged "continued"; later pages of the stream are renumbered.
   kind 14: i = page index in the file; kind 15: i = link index, the link's first audio page is taken; kind 16: the i-th page that can be split.  Returns 1 if a page was split. */
static int c7_pagesplit(int kind,long i,long long v){
  static c7_seg seg[4096]; int n=c7_segments(&c7_phys,seg,4096),k,np=0,t=-1; int idx[4096]; buf_t out={0,0,0};
  unsigned char *pg; long len,lead,nseg,serial,delta,cutoff; int li,renum=0;
  for(k=0;k<n;k++)if(seg[k].ispage)idx[np++]=k;
  if(np==0)return 0;
  if(kind==15){
    if(c7_nlinks<1)return 0;
    i=((i%c7_nlinks)+c7_nlinks)%c7_nlinks;
    for(k=0;k<np;k++){ unsigned char *q=c7_phys.p+seg[idx[k]].off; int b,nz=0;
      if(seg[idx[k]].off<c7_linkoff[i]||seg[idx[k]].off>=c7_linkoff[i+1])continue;
      for(b=0;b<8;b++)if(q[6+b])nz=1;
      if(nz&&!(q[5]&2)){ t=idx[k]; break; } }
    if(t<0)return 0;
  }else if(kind==16){                                     /* the i-th page that can be split at all */
    int cand[4096],nc=0;
    for(k=0;k<np;k++){ unsigned char *q=c7_phys.p+seg[idx[k]].off; if(!(q[5]&2)&&q[26]>=2&&q[27]==255)cand[nc++]=idx[k]; }
    if(!nc)return 0;
    t=cand[((i%nc)+nc)%nc];
  }else{ i=((i%np)+np)%np; t=idx[i]; }
  pg=c7_phys.p+seg[t].off; len=seg[t].len; nseg=pg[26];
  if(pg[5]&2)return 0;                                   /* never the BOS page */
  for(lead=0;lead<nseg&&pg[27+lead]==255;lead++);
  if(lead==nseg)lead--;                                   /* something must stay for the second page */
  if(lead<1)return 0;
  v=1+((v%lead)+lead)%lead;                               /* 1..lead segments on the first page */
  serial=pg[14]|(pg[15]<<8)|(pg[16]<<16)|((long)pg[17]<<24);
  cutoff=seg[t].off; delta=27;                            /* one more page header, the lacing values are shared out */
  for(k=0;k<n;k++){
    unsigned char *src=c7_phys.p+seg[k].off; long l=seg[k].len;
    if(k==t){
      unsigned char ha[27+255],hb[27+255]; long at; long seq=pg[18]|(pg[19]<<8)|(pg[20]<<16)|((long)pg[21]<<24); int b;
      memcpy(ha,pg,27); ha[5]=pg[5]&~4; for(b=0;b<8;b++)ha[6+b]=0xff; ha[26]=(unsigned char)v; memset(ha+27,255,v);
      at=out.n; buf_add(&out,ha,27+v); buf_add(&out,pg+27+nseg,255*v); c7_recrc(out.p+at,27+v+255*v);
      memcpy(hb,pg,27); hb[5]=(pg[5]|1)&~2; seq++; hb[18]=seq&255; hb[19]=(seq>>8)&255; hb[20]=(seq>>16)&255; hb[21]=(seq>>24)&255;
      hb[26]=(unsigned char)(nseg-v); memcpy(hb+27,pg+27+v,nseg-v);
      at=out.n; buf_add(&out,hb,27+nseg-v); buf_add(&out,pg+27+nseg+255*v,len-27-nseg-255*v); c7_recrc(out.p+at,len-27-v-255*v+27);
      renum=1; continue;
    }
    { long at=out.n; buf_add(&out,src,l);
      if(renum&&seg[k].ispage&&l>=27){ unsigned char *q=out.p+at; long s2=q[14]|(q[15]<<8)|(q[16]<<16)|((long)q[17]<<24);
        if(s2==serial){ if(q[5]&2)renum=0; else{ long seq=q[18]|(q[19]<<8)|(q[20]<<16)|((long)q[21]<<24); seq++; q[18]=seq&255; q[19]=(seq>>8)&255; q[20]=(seq>>16)&255; q[21]=(seq>>24)&255; c7_recrc(q,l); } } } }
  }
  for(li=0;li<=c7_nlinks&&li<65;li++) if(c7_linkoff[li]>cutoff) c7_linkoff[li]+=delta;
  free(c7_phys.p); c7_phys=out;
  return 1;
}
/* multiplex: the pages of the link appended last are interleaved with those of a freshly encoded foreign stream
   (grouping rule: both BOS pages first) */
static void c7_mux(mk_params *P){
  buf_t other={0,0,0},tail={0,0,0},out={0,0,0}; static c7_seg sa[4096],sb[4096]; int na,nb,a=0,b=0; long start;
  if(c7_nlinks<1)return;
  start=c7_linkoff[c7_nlinks-1];
  if(mk_encode(P,&other)){ free(other.p); return; }
  buf_add(&tail,c7_phys.p+start,c7_phys.n-start);
  na=c7_segments(&tail,sa,4096); nb=c7_segments(&other,sb,4096);
  buf_add(&out,c7_phys.p,start);
  if(na>0){ buf_add(&out,tail.p+sa[0].off,sa[0].len); a=1; }
  if(nb>0){ buf_add(&out,other.p+sb[0].off,sb[0].len); b=1; }
  while(a<na||b<nb){
    if(a<na){ buf_add(&out,tail.p+sa[a].off,sa[a].len); a++; }
    if(b<nb){ buf_add(&out,other.p+sb[b].off,sb[b].len); b++; }
  }
  free(c7_phys.p); free(other.p); free(tail.p); c7_phys=out; c7_linkoff[c7_nlinks]=c7_phys.n;
}

static void c7_linktable(c7_handle *H){
  OggVorbis_File *vf=&H->vf; int i;
  printf(" links=%d seekable=%d state=%d",vf->links,vf->seekable,vf->ready_state);
  if(vf->seekable&&vf->offsets&&vf->pcmlengths&&vf->ready_state>=OPENED){
    printf(" end=%lld offs=",(long long)vf->end);
    for(i=0;i<=vf->links;i++)printf("%s%lld",i?",":"",(long long)vf->offsets[i]);
    printf(" doffs="); for(i=0;i<vf->links;i++)printf("%s%lld",i?",":"",(long long)vf->dataoffsets[i]);
    printf(" serials="); for(i=0;i<vf->links;i++)printf("%s%ld",i?",":"",vf->serialnos[i]);
    printf(" pcml="); for(i=0;i<vf->links*2;i++)printf("%s%lld",i?",":"",(long long)vf->pcmlengths[i]);
  }
}

static int c07_main(int argc,char **argv){
  char *line; char *tok[16]; int i;
  memset(c7h,0,sizeof c7h);
  while((line=readline_(stdin))){
    int n=split(line,tok,16); const char *op;
    if(n==0){ free(line); continue; }
    op=tok[0];
    if(!strcmp(op,"case")){
      printf("== case %s\n",n>1?tok[1]:"?"); fflush(stdout);
      { const char *t=getenv("VERIF_CASE_TIMEOUT"); alarm(t?atoi(t):120); }   /* a call that never returns ends the process: the batch runner blames this case */
      for(i=0;i<C7_SLOTS;i++) if(c7h[i].open){ ov_clear(&c7h[i].vf); c7h[i].open=0; }
      c7_phys.n=0; c7_nlinks=0; c7_free_ref(0); c7_free_ref(1); ms_errno_noise=0;
    }else if(!strcmp(op,"link")&&n>=9){
      mk_params P; int rc; memset(&P,0,sizeof P);
      P.channels=atoi(tok[1]); P.rate=atol(tok[2]); P.quality=atof(tok[3]); P.n=atol(tok[4]); P.sig=atoi(tok[5]); P.seed=atol(tok[6]); P.pagemode=atoi(tok[7]); P.fill=atoi(tok[8]);
      P.serial=(P.seed%5==3)?(int)(0x80000000u+(unsigned)P.seed):(int)(1000+P.seed%100000); /* one link in five has the top bit of its serial number set */
      P.chunk=3000;
      if(c7_nlinks<64)c7_linkoff[c7_nlinks]=c7_phys.n;
      rc=mk_encode(&P,&c7_phys);
      if(c7_nlinks<64){ c7_nlinks++; c7_linkoff[c7_nlinks]=c7_phys.n; }
      printf("link rc=%s bytes=%ld\n",ovname(rc),c7_phys.n);
    }else if(!strcmp(op,"rawbegin")&&n>=5){
      /* rawbegin <serial> <idhex> <commenthex> <setuphex>: start a hand-made link; headers paged like the reference encoder does */
      ogg_page og; int k;
      if(c7_raw_open)ogg_stream_clear(&c7_raw_os);
      ogg_stream_init(&c7_raw_os,atol(tok[1])); c7_raw_open=1; c7_raw_pkno=0;
      if(c7_nlinks<64)c7_linkoff[c7_nlinks]=c7_phys.n;
      for(k=0;k<3;k++){ bytes_t b=unhex(tok[2+k]); ogg_packet op; memset(&op,0,sizeof op); op.packet=b.p; op.bytes=b.n; op.b_o_s=(k==0); op.granulepos=0; op.packetno=c7_raw_pkno++;
        ogg_stream_packetin(&c7_raw_os,&op); free(b.p);
        if(k==0) while(ogg_stream_flush(&c7_raw_os,&og)) buf_page(&c7_phys,&og); }
      while(ogg_stream_flush(&c7_raw_os,&og)) buf_page(&c7_phys,&og);
      printf("rawbegin bytes=%ld\n",c7_phys.n);
    }else if(!strcmp(op,"rawpk")&&n>=5){
      /* rawpk <hex> <granulepos> <eos> <flush> */
      if(!c7_raw_open)printf("rawpk nolink\n"); else{
        bytes_t b=unhex(tok[1]); ogg_packet op; ogg_page og; memset(&op,0,sizeof op); op.packet=b.p; op.bytes=b.n; op.granulepos=atoll(tok[2]); op.e_o_s=atoi(tok[3]); op.packetno=c7_raw_pkno++;
        ogg_stream_packetin(&c7_raw_os,&op); free(b.p);
        if(atoi(tok[4])) while(ogg_stream_flush(&c7_raw_os,&og)) buf_page(&c7_phys,&og);
        else while(ogg_stream_pageout(&c7_raw_os,&og)) buf_page(&c7_phys,&og);
        printf("rawpk bytes=%ld\n",c7_phys.n); }
    }else if(!strcmp(op,"rawend")){
      if(c7_raw_open){ ogg_page og; while(ogg_stream_flush(&c7_raw_os,&og)) buf_page(&c7_phys,&og); ogg_stream_clear(&c7_raw_os); c7_raw_open=0;
        if(c7_nlinks<64){ c7_nlinks++; c7_linkoff[c7_nlinks]=c7_phys.n; } }
      printf("rawend bytes=%ld\n",c7_phys.n);
    }else if(!strcmp(op,"garbage")&&n>=3){
      long k=atol(tok[1]),j; mk_rng_state=(uint32_t)atol(tok[2])|1; for(j=0;j<k;j++){ unsigned char c=mk_rand()&255; buf_add(&c7_phys,&c,1); }
      printf("garbage bytes=%ld\n",c7_phys.n);
    }else if(!strcmp(op,"damage")&&n>=4){
      c7_damage(atoi(tok[1]),atol(tok[2]),atol(tok[3])); printf("damage bytes=%ld\n",c7_phys.n);
    }else if(!strcmp(op,"pagedamage")&&n>=5){
      if(atoi(tok[1])>=14&&atoi(tok[1])<=16){ int did=c7_pagesplit(atoi(tok[1]),atol(tok[2]),atoll(tok[4])); printf("pagedamage bytes=%ld split=%d\n",c7_phys.n,did); }
      else if(atoi(tok[1])==23){ c7_granshift(atol(tok[2]),atoll(tok[4])); printf("pagedamage bytes=%ld\n",c7_phys.n); }
      else{ c7_pagedamage(atoi(tok[1]),atol(tok[2]),atol(tok[3]),atoll(tok[4])); printf("pagedamage bytes=%ld\n",c7_phys.n); }
    }else if(!strcmp(op,"mux")&&n>=9){
      mk_params P; memset(&P,0,sizeof P);
      P.channels=atoi(tok[1]); P.rate=atol(tok[2]); P.quality=atof(tok[3]); P.n=atol(tok[4]); P.sig=atoi(tok[5]); P.seed=atol(tok[6]); P.pagemode=atoi(tok[7]); P.fill=atoi(tok[8]);
      P.serial=500000+P.seed%100000; P.chunk=3000;
      c7_mux(&P); printf("mux bytes=%ld\n",c7_phys.n);
    }else if(!strcmp(op,"table")){
      c7_table(); c7_headers();
    }else if(!strcmp(op,"ref")&&n>=2){
      int hs=atoi(tok[1])?1:0; c7_build_ref(hs); printf("ref hs=%d links=%d\n",hs,c7_refn[hs]);
    }else if(!strcmp(op,"errnoise")&&n>=2){
      ms_errno_noise=atoi(tok[1]); printf("errnoise %d\n",ms_errno_noise);
    }else if(!strcmp(op,"live")){
      vf_live("");
    }else if(!strcmp(op,"refpk")&&n>=2){
      int hs=atoi(tok[1])?1:0,li; if(!c7_nlinks)printf("refpk none\n"); for(li=0;li<c7_nlinks;li++)c7_refpk(hs,li);
    }else if((!strcmp(op,"open")||!strcmp(op,"test"))&&n>=4){
      int s=atoi(tok[1])%C7_SLOTS; c7_handle *H=&c7h[s]; int seekable=atoi(tok[2]); int rc;
      if(H->open){ ov_clear(&H->vf); H->open=0; }
      ms_init(&H->ms,c7_phys.p,c7_phys.n,seekable); H->ms.chunk=atol(tok[3]); memset(H->seq,0,sizeof H->seq); H->lap_valid=0; H->stale=0; H->played=0;
      if(n>=7){ H->ms.fault_at=atol(tok[4]); H->ms.fault_kind=atoi(tok[5]); H->ms.fault_persist=atoi(tok[6]); }
      rc=(op[0]=='o')?ov_open_callbacks(&H->ms,&H->vf,NULL,0,ms_callbacks(seekable)):ov_test_callbacks(&H->ms,&H->vf,NULL,0,ms_callbacks(seekable));
      printf("%s rc=%s closed=%d",op,ovname(rc),H->ms.closed);
      if(rc==0&&n>=7)printf(" fired=%d",H->ms.faults_fired);
      if(rc==0){ H->open=1; c7_linktable(H); }
      else{ unsigned char *z=(unsigned char*)&H->vf; size_t k; int zero=1; for(k=0;k<sizeof(H->vf);k++)if(z[k]){zero=0;break;} printf(" zeroed=%d fired=%d",zero,H->ms.faults_fired); }
      putchar('\n');
    }else if(!strcmp(op,"testopen")&&n>=2){
      c7_handle *H=&c7h[atoi(tok[1])%C7_SLOTS]; int rc=H->open?ov_test_open(&H->vf):-9999;
      printf("testopen rc=%s closed=%d",ovname(rc),H->ms.closed); if(rc==0)c7_linktable(H); else if(rc!=-9999&&rc!=OV_EINVAL)H->open=0; putchar('\n');
    }else{
      /* ops on an open handle */
      int s=(n>=2)?atoi(tok[1])%C7_SLOTS:0; c7_handle *H=&c7h[s]; OggVorbis_File *vf=&H->vf;
      if(!H->open){ printf("%s notopen\n",op); free(line); continue; }
      if(!strcmp(op,"fault")&&n>=5){ H->ms.fault_at=H->ms.ncalls+atol(tok[2]); H->ms.fault_kind=atoi(tok[3]); H->ms.fault_persist=atoi(tok[4]); H->ms.faults_fired=0; H->ffq_mark=0; printf("fault armed\n"); }
      else if(!strcmp(op,"vdstate")){ printf("vdstate ready=%d ret=%d cur=%d cW=%ld lW=%ld W=%ld gp=%lld link=%d\n",vf->ready_state,vf->ready_state>=INITSET?vf->vd.pcm_returned:-99,vf->ready_state>=INITSET?vf->vd.pcm_current:-99,(long)vf->vd.centerW,(long)vf->vd.lW,(long)vf->vd.W,(long long)vf->vd.granulepos,vf->current_link); }
      else if(!strcmp(op,"nofault")){ printf("nofault fired=%d\n",H->ms.faults_fired); H->ms.fault_kind=0; }
      else if(!strcmp(op,"ffq")){ printf("ffq fired=%d kind=%d\n",H->ms.faults_fired-H->ffq_mark,H->ms.fault_kind); H->ffq_mark=H->ms.faults_fired; }
      else if(!strcmp(op,"tell")) printf("tell %lld\n",(long long)ov_pcm_tell(vf));
      else if(!strcmp(op,"rawtell")) printf("rawtell %lld\n",(long long)ov_raw_tell(vf));
      else if(!strcmp(op,"timetell")) printf("timetell %.9f\n",ov_time_tell(vf));
      else if(!strcmp(op,"total")) printf("total %lld\n",(long long)ov_pcm_total(vf,atoi(tok[2])));
      else if(!strcmp(op,"rawtotal")) printf("rawtotal %lld\n",(long long)ov_raw_total(vf,atoi(tok[2])));
      else if(!strcmp(op,"timetotal")) printf("timetotal %.9f\n",ov_time_total(vf,atoi(tok[2])));
      else if(!strcmp(op,"serial")) printf("serial %ld\n",ov_serialnumber(vf,atoi(tok[2])));
      else if(!strcmp(op,"bitrate")) printf("bitrate %ld\n",ov_bitrate(vf,atoi(tok[2])));
      else if(!strcmp(op,"instant")) printf("instant %s\n",ov_bitrate_instant(vf)>=-200?"ok":"bad");
      else if(!strcmp(op,"streams")) printf("streams %ld\n",ov_streams(vf));
      else if(!strcmp(op,"seekable")) printf("seekable %ld\n",ov_seekable(vf));
      else if(!strcmp(op,"info")){ vorbis_info *vi=ov_info(vf,atoi(tok[2])); vorbis_comment *vc=ov_comment(vf,atoi(tok[2])); if(vi)printf("info ch=%d rate=%ld comments=%d\n",vi->channels,vi->rate,vc?vc->comments:-1); else printf("info null\n"); }
      else if(!strcmp(op,"read")&&n>=3){
        float **pcm; int bs=-7; ogg_int64_t t0=ov_pcm_tell(vf); int hs=ov_halfrate_p(vf)>0; long r=ov_read_float(vf,&pcm,atoi(tok[2]),&bs); ogg_int64_t t1=ov_pcm_tell(vf);
        int ok=-1;
        if(r>0)H->played+=r;
        if(r>0){
          if(vf->seekable&&H->lap_valid&&H->lap_hs==hs) ok=c7_check_lap(H,hs,pcm,r,bs,t0);
          else if(vf->seekable) ok=c7_check(hs,pcm,r,bs,t0);
          else if(bs>=0&&bs<64&&c7_ref[hs]&&bs<c7_refn[hs]){ /* streaming: positions restart per link; compare sequentially */
            ok=c7_check(hs,pcm,r,bs,c7_ref[hs][bs].start+(H->seq[bs]<<hs)); H->seq[bs]+=r; }
        }
        printf("read rc=%s link=%d t0=%lld t1=%lld ok=%d",ovname(r),r>0?bs:-1,(long long)t0,(long long)t1,ok);
        if(ok==0)printf(" mis=%ld:%ld:%ld",c7_mis_n,c7_mis_first,c7_mis_last);
        putchar('\n');
      }else if(!strcmp(op,"readto")&&n>=3){
        /* read on (no seek) until the position reaches <pos>: requests sized so that the position lands on it exactly; every chunk is checked like a read */
        ogg_int64_t target=atoll(tok[2]); long r=0; int okall=1,cnt=0,bs=-7;
        while(cnt<200000){
          float **pcm; ogg_int64_t t0=ov_pcm_tell(vf); int hs=ov_halfrate_p(vf)>0; long want; int ok=-1;
          if(t0<0||t0>=target)break;
          want=(long)((target-t0)>>hs); if(want<1)want=1; if(want>4096)want=4096;
          r=ov_read_float(vf,&pcm,(int)want,&bs); cnt++;
          if(r<=0)break;
          H->played+=r;
          if(vf->seekable&&H->lap_valid&&H->lap_hs==hs) ok=c7_check_lap(H,hs,pcm,r,bs,t0);
          else if(vf->seekable) ok=c7_check(hs,pcm,r,bs,t0);
          if(ok==0)okall=0;
        }
        printf("readto rc=%s tell=%lld ok=%d n=%d\n",ovname(r<0?r:0),(long long)ov_pcm_tell(vf),okall,cnt);
      }else if(!strcmp(op,"readi")&&n>=6){
        char *buf=malloc(atoi(tok[2])+16); int bs=-7; ogg_int64_t t0=ov_pcm_tell(vf); long r=ov_read(vf,buf,atoi(tok[2]),atoi(tok[3]),atoi(tok[4]),atoi(tok[5]),&bs);
        H->played=0; /* (frame count not tracked here) */
        if(r>0&&!vf->seekable&&bs>=0&&bs<64){ vorbis_info *vi=ov_info(vf,-1); if(vi&&atoi(tok[4])>0) H->seq[bs]+=r/(atoi(tok[4])*vi->channels); }
        printf("readi rc=%s link=%d t0=%lld t1=%lld\n",ovname(r),r>0?bs:-1,(long long)t0,(long long)ov_pcm_tell(vf)); free(buf);
      }else if(!strcmp(op,"rawseekto")&&n>=3){
        /* raw seek to the byte position handle <src> stands at right now (the no-op case of _seek_helper when src is the handle itself) */
        c7_handle *S=&c7h[atoi(tok[2])%C7_SLOTS]; ogg_int64_t pos=S->open?ov_raw_tell(&S->vf):0; int rc;
        H->lap_valid=0; H->stale=0; H->played=0;
        rc=ov_raw_seek(vf,pos);
        printf("rawseekto rc=%s tell=%lld state=%d link=%d\n",ovname(rc),(long long)ov_pcm_tell(vf),vf->ready_state,vf->ready_state>=STREAMSET?vf->current_link:-1);
      }else if(!strncmp(op,"rawseek",7)||!strncmp(op,"pcmseekpage",11)||!strncmp(op,"pcmseek",7)){
        ogg_int64_t pos=atoll(tok[2]); int lap=(strstr(op,"lap")!=NULL); int rc;
        if(tok[2][0]=='g'){ /* g<i>m<back>: <back> samples before the granule position of page <i> of the physical stream (single-link streams) */
          static c7_seg sg[4096]; int nn=c7_segments(&c7_phys,sg,4096),kk,npg=0; long want=atol(tok[2]+1); const char *mm=strchr(tok[2],'m'); long back=mm?atol(mm+1):0; pos=0;
          for(kk=0;kk<nn;kk++)if(sg[kk].ispage){ if(npg==want&&sg[kk].len>=27){ unsigned char *pg=c7_phys.p+sg[kk].off; long long g=0; int b; for(b=7;b>=0;b--)g=(g<<8)|pg[6+b]; pos=g-back; } npg++; } }
        ogg_int64_t oldpos=ov_pcm_tell(vf); int oldlink=(vf->seekable&&vf->ready_state>=STREAMSET)?vf->current_link:-1; int ohs=ov_halfrate_p(vf)>0;
        int on=(oldlink>=0&&vf->vi)?(vorbis_info_blocksize(vf->vi+oldlink,0)>>(1+ohs)):0; int och=(oldlink>=0&&vf->vi)?vf->vi[oldlink].channels:0;
        int pend=H->lap_valid||H->stale; /* the audio at the old position is itself still cross-faded, or the decoder is ahead of the position (after ov_crosslap) */
        int tail_ok=(oldlink>=0&&vf->vi&&H->played>=2*vorbis_info_blocksize(vf->vi+oldlink,1)); /* the last two blocks were decoded in sequence: the overlap half is that of a plain play-through */
        H->lap_valid=0; H->played=0;
        if(!strncmp(op,"rawseek",7)) rc=lap?ov_raw_seek_lap(vf,pos):ov_raw_seek(vf,pos);
        else if(!strncmp(op,"pcmseekpage",11)) rc=lap?ov_pcm_seek_page_lap(vf,pos):ov_pcm_seek_page(vf,pos);
        else rc=lap?ov_pcm_seek_lap(vf,pos):ov_pcm_seek(vf,pos);
        if(lap&&rc==0&&vf->ready_state>=STREAMSET&&on>0){ int nn=vorbis_info_blocksize(vf->vi+vf->current_link,0)>>(1+ohs);
          H->lap_valid=1; H->lap_oldpos=oldpos; H->lap_oldlink=oldlink; H->lap_newpos=ov_pcm_tell(vf); H->lap_n=on<nn?on:nn; H->lap_ch1=och; H->lap_hs=ohs; H->lap_oldunk=pend; H->lap_tail_ok=tail_ok; H->lap_newlink=vf->current_link; H->lap_k=vorbis_synthesis_pcmout(&vf->vd,NULL); }
        if(rc==OV_EINVAL||rc==OV_ENOSEEK)H->lap_valid=pend&&!H->stale; else H->stale=0; /* refused: nothing moved */
        printf("%s rc=%s tell=%lld state=%d link=%d\n",op,ovname(rc),(long long)ov_pcm_tell(vf),vf->ready_state,vf->ready_state>=STREAMSET?vf->current_link:-1);
      }else if(!strncmp(op,"timeseek",8)){
        double t=atof(tok[2])/1000.; int lap=(strstr(op,"lap")!=NULL); int page=(strstr(op,"page")!=NULL); int rc;
        /* the exact duration (the first value out of range), its neighbours among the doubles, not-a-number */
        if(!strcmp(tok[2],"end"))t=ov_time_total(vf,-1); else if(!strcmp(tok[2],"endm"))t=nextafter(ov_time_total(vf,-1),-1e300);
        else if(!strcmp(tok[2],"endp"))t=nextafter(ov_time_total(vf,-1),1e300); else if(!strcmp(tok[2],"nan"))t=NAN;
        /* le<k>q<n>: n quarter samples before the end of link k (the last fraction of a sample of a link) */
        else if(!strncmp(tok[2],"le",2)){ int k=atoi(tok[2]+2),i; const char *qp=strchr(tok[2],'q'); int qn=qp?atoi(qp+1):1; t=0;
          if(vf->seekable&&k>=0&&k<vf->links){ for(i=0;i<=k;i++)t+=ov_time_total(vf,i); t-=(double)qn/(4.0*(double)vf->vi[k].rate); } }
        ogg_int64_t oldpos=ov_pcm_tell(vf); int oldlink=(vf->seekable&&vf->ready_state>=STREAMSET)?vf->current_link:-1; int ohs=ov_halfrate_p(vf)>0;
        int on=(oldlink>=0&&vf->vi)?(vorbis_info_blocksize(vf->vi+oldlink,0)>>(1+ohs)):0; int och=(oldlink>=0&&vf->vi)?vf->vi[oldlink].channels:0;
        int pend=H->lap_valid||H->stale; /* the audio at the old position is itself still cross-faded, or the decoder is ahead of the position (after ov_crosslap) */
        int tail_ok=(oldlink>=0&&vf->vi&&H->played>=2*vorbis_info_blocksize(vf->vi+oldlink,1));
        H->lap_valid=0; H->played=0;
        if(page) rc=lap?ov_time_seek_page_lap(vf,t):ov_time_seek_page(vf,t); else rc=lap?ov_time_seek_lap(vf,t):ov_time_seek(vf,t);
        if(lap&&rc==0&&vf->ready_state>=STREAMSET&&on>0){ int nn=vorbis_info_blocksize(vf->vi+vf->current_link,0)>>(1+ohs);
          H->lap_valid=1; H->lap_oldpos=oldpos; H->lap_oldlink=oldlink; H->lap_newpos=ov_pcm_tell(vf); H->lap_n=on<nn?on:nn; H->lap_ch1=och; H->lap_hs=ohs; H->lap_oldunk=pend; H->lap_tail_ok=tail_ok; H->lap_newlink=vf->current_link; H->lap_k=vorbis_synthesis_pcmout(&vf->vd,NULL); }
        if(rc==OV_EINVAL||rc==OV_ENOSEEK)H->lap_valid=pend&&!H->stale; else H->stale=0;
        printf("%s rc=%s tell=%lld state=%d link=%d\n",op,ovname(rc),(long long)ov_pcm_tell(vf),vf->ready_state,vf->ready_state>=STREAMSET?vf->current_link:-1);
      }else if(!strcmp(op,"halfrate")&&n>=3){
        int rc=ov_halfrate(vf,atoi(tok[2])); H->lap_valid=0; H->played=0; printf("halfrate rc=%s p=%d tell=%lld\n",ovname(rc),ov_halfrate_p(vf),(long long)ov_pcm_tell(vf));
      }else if(!strcmp(op,"crosslap")&&n>=3){
        c7_handle *H2=&c7h[atoi(tok[2])%C7_SLOTS]; int rc;
        ogg_int64_t oldpos=ov_pcm_tell(vf); int h1=ov_halfrate_p(vf)>0;
        rc=H2->open?ov_crosslap(vf,&H2->vf):-9999;
        /* a refused ov_crosslap (nothing to prime on the new handle, bad state) returns before it touches the old handle's audio: both expectations stay */
        if(rc==0){ int pend=H->lap_valid||H->stale||(H2->open&&H2->lap_valid); /* an old handle that already gave its lapping audio to an earlier ov_crosslap is ahead of its position */
          if(H2->open){ H2->lap_valid=0; H2->lap_oldunk=pend; }
          H->lap_valid=0; H->stale=1; } /* its lapping audio has been consumed without the position moving: see the C19 notes */
        if(rc==0&&H2!=H&&vf->seekable&&H2->vf.seekable&&vf->ready_state>=STREAMSET&&H2->vf.ready_state>=STREAMSET){
          /* each handle's half short block in the samples that handle delivers; with the two handles at different decode rates the mix inside the
             region is not predicted (lap_oldunk), only its extent: everything after it on the second handle is that handle's plain audio */
          int h2=ov_halfrate_p(&H2->vf)>0;
          int on=vorbis_info_blocksize(vf->vi+vf->current_link,0)>>(1+h1), nn=vorbis_info_blocksize(H2->vf.vi+H2->vf.current_link,0)>>(1+h2);
          if(h1!=h2)H2->lap_oldunk=1;
          H2->lap_valid=1; H2->lap_oldpos=oldpos; H2->lap_oldlink=vf->current_link; H2->lap_newpos=ov_pcm_tell(&H2->vf); H2->lap_n=on<nn?on:nn; H2->lap_ch1=vf->vi[vf->current_link].channels; H2->lap_hs=h2; H2->lap_tail_ok=(H->played>=2*vorbis_info_blocksize(vf->vi+vf->current_link,1)); H2->lap_newlink=H2->vf.current_link; H2->lap_k=vorbis_synthesis_pcmout(&H2->vf.vd,NULL); }
        printf("crosslap rc=%s\n",ovname(rc));
      }else if(!strcmp(op,"clear")){
        int rc=ov_clear(vf); H->open=0; printf("clear rc=%d closed=%d\n",rc,H->ms.closed);
      }else printf("bad-op %s\n",op);
    }
    free(line);
  }
  for(i=0;i<C7_SLOTS;i++) if(c7h[i].open) ov_clear(&c7h[i].vf);
  free(c7_phys.p); c7_free_ref(0); c7_free_ref(1);
  return 0;
}
