/* in-process stream factory (real encoder -> Ogg bytes) and a memory data source with
   chunk and fault schedules, shared by the vorbisfile streams of vharn */
#ifndef VHARN_MKSTREAM_H
#define VHARN_MKSTREAM_H
#include "common.h"

typedef struct { unsigned char *p; long n, cap; } buf_t;
static void buf_add(buf_t *b,const void *d,long n){
  if(b->n+n>b->cap){ b->cap=(b->n+n)*2+4096; b->p=realloc(b->p,b->cap); }
  memcpy(b->p+b->n,d,n); b->n+=n;
}
static void buf_page(buf_t *b,ogg_page *og){ buf_add(b,og->header,og->header_len); buf_add(b,og->body,og->body_len); }

/* deterministic PRNG (xorshift) so that signals are reproducible */
static uint32_t mk_rng_state=1;
static uint32_t mk_rand(void){ uint32_t x=mk_rng_state; x^=x<<13; x^=x>>17; x^=x<<5; mk_rng_state=x?x:1; return mk_rng_state; }

typedef struct {
  int channels; long rate; float quality;      /* quality<-1.5 -> managed with the three rates */
  long maxr,nomr,minr;
  long n;                                      /* samples per channel */
  int sig;                                     /* 0 sine/ch, 1 noise, 2 silence, 3 impulses, 4 loud (x4) */
  long chunk;                                  /* samples per vorbis_analysis_wrote call (0: all at once) */
  long serial;
  int pagemode;                                /* 0 pageout, 1 flush after every packet, 2 pageout_fill(fill) */
  int fill;
  long seed;
} mk_params;

/* per-packet log of the last encode (for C04/C05/C14 streams) */
typedef struct { long bytes; ogg_int64_t gp; int eos; int W; } mk_pkt;
static mk_pkt *mk_log=NULL; static long mk_logn=0, mk_logcap=0;
static void mk_log_add(ogg_packet *op,int W){
  if(mk_logn==mk_logcap){ mk_logcap=mk_logcap*2+256; mk_log=realloc(mk_log,mk_logcap*sizeof(*mk_log)); }
  mk_log[mk_logn].bytes=op->bytes; mk_log[mk_logn].gp=op->granulepos; mk_log[mk_logn].eos=op->e_o_s; mk_log[mk_logn].W=W; mk_logn++;
}

static float mk_sample(mk_params *P,int ch,long i){
  switch(P->sig){
  case 0: return 0.5f*sinf((float)i*(0.02f+0.013f*ch)+ch);
  case 1: return ((int)(mk_rand()&0xffff)-32768)/40000.f;
  case 2: return 0.f;
  case 3: return (i%997==(ch*31))?0.9f:0.f;
  case 10: return ((i%9973==(ch*31+4000))?0.9f:0.f)+0.05f*sinf((float)i*0.031f+ch);   /* a steady tone with a click now and then: long blocks with isolated runs of short ones */
  default: return 2.0f*sinf((float)i*(0.05f+0.01f*ch))+((int)(mk_rand()&0xff)-128)/100.f;
  }
}

/* returns 0 on success; appends the logical stream to out. rc of the failing setup call otherwise */
static int mk_encode(mk_params *P,buf_t *out){
  vorbis_info vi; vorbis_comment vc; vorbis_dsp_state vd; vorbis_block vb;
  ogg_stream_state os; ogg_page og; ogg_packet op,h0,h1,h2;
  int rc; long done=0; int eos=0;
  mk_rng_state=(uint32_t)(P->seed*2654435761u+12345u); if(!mk_rng_state)mk_rng_state=1;
  mk_logn=0;
  vorbis_info_init(&vi);
  if(P->quality<-1.5f) rc=vorbis_encode_init(&vi,P->channels,P->rate,P->maxr,P->nomr,P->minr);
  else rc=vorbis_encode_init_vbr(&vi,P->channels,P->rate,P->quality);
  if(rc){ vorbis_info_clear(&vi); return rc; }
  vorbis_comment_init(&vc); vorbis_comment_add_tag(&vc,"ENCODER","vharn");
  vorbis_analysis_init(&vd,&vi); vorbis_block_init(&vd,&vb);
  ogg_stream_init(&os,P->serial);
  vorbis_analysis_headerout(&vd,&vc,&h0,&h1,&h2);
  ogg_stream_packetin(&os,&h0); ogg_stream_packetin(&os,&h1); ogg_stream_packetin(&os,&h2);
  while(ogg_stream_flush(&os,&og)) buf_page(out,&og);
  while(!eos){
    long todo=P->n-done, i; int c;
    if(P->chunk>0&&todo>P->chunk)todo=P->chunk;
    if(todo>0){
      float **b=vorbis_analysis_buffer(&vd,todo);
      for(c=0;c<P->channels;c++) for(i=0;i<todo;i++) b[c][i]=mk_sample(P,c,done+i);
      vorbis_analysis_wrote(&vd,todo); done+=todo;
    }else vorbis_analysis_wrote(&vd,0);
    while(vorbis_analysis_blockout(&vd,&vb)==1){
      vorbis_analysis(&vb,NULL); vorbis_bitrate_addblock(&vb);
      while(vorbis_bitrate_flushpacket(&vd,&op)){
        mk_log_add(&op,vb.W);
        ogg_stream_packetin(&os,&op);
        for(;;){
          int r;
          if(P->pagemode==1) r=ogg_stream_flush(&os,&og);
          else if(P->pagemode==2) r=ogg_stream_pageout_fill(&os,&og,P->fill);
          else r=ogg_stream_pageout(&os,&og);
          if(!r)break;
          buf_page(out,&og);
          if(ogg_page_eos(&og))eos=1;
        }
      }
    }
    if(todo<=0&&!eos){ /* drained without an EOS page (cannot happen on a correct encoder) */
      while(ogg_stream_flush(&os,&og)) buf_page(out,&og);
      break;
    }
  }
  while(ogg_stream_flush(&os,&og)) buf_page(out,&og);
  ogg_stream_clear(&os); vorbis_block_clear(&vb); vorbis_dsp_clear(&vd); vorbis_comment_clear(&vc); vorbis_info_clear(&vi);
  return 0;
}

/* ---- memory data source ------------------------------------------------------------------ */
typedef struct {
  unsigned char *data; long len, pos;
  long chunk;                 /* >0: a read returns at most this many bytes */
  /* fault schedule: on callback invocation number fault_at (counted over read+seek+tell),
     kind 1 read error(errno), 2 zero read, 3 one byte read, 4 seek -1, 5 tell -1; persist: keeps failing */
  long ncalls, fault_at; int fault_kind, fault_persist, faults_fired;
  int closed; int seekable;
  long nread,nseek,ntell;
} memsrc;

/* errno as a real fread-based callback may leave it after a SUCCESSFUL read (e.g. an interrupted and retried read(2)): 0 = cleared */
static int ms_errno_noise=0;
static int ms_fault(memsrc *m,int kindclass){
  /* kindclass: 0 read, 1 seek, 2 tell */
  long k=m->ncalls++;
  if(m->fault_kind==0)return 0;
  if(k==m->fault_at||(m->fault_persist&&k>m->fault_at)){
    if(kindclass==0&&(m->fault_kind>=1&&m->fault_kind<=3)){ m->faults_fired++; return m->fault_kind; }
    if(kindclass==1&&m->fault_kind==4){ m->faults_fired++; return 4; }
    if(kindclass==2&&m->fault_kind==5){ m->faults_fired++; return 5; }
  }
  return 0;
}
static size_t ms_read(void *ptr,size_t size,size_t nmemb,void *src){
  memsrc *m=src; long want=size*nmemb, left=m->len-m->pos; int f=ms_fault(m,0);
  m->nread++;
  if(f==1){ errno=EIO; return 0; }
  if(f==2){ errno=0; return 0; }
  if(want>left)want=left;
  if(m->chunk>0&&want>m->chunk)want=m->chunk;
  if(f==3&&want>1)want=1;
  if(want<0)want=0;
  memcpy(ptr,m->data+m->pos,want); m->pos+=want;
  errno=(want>0)?ms_errno_noise:0;
  return want;
}
static int ms_seek(void *src,ogg_int64_t off,int whence){
  memsrc *m=src; long np; int f;
  if(!m->seekable)return -1;
  f=ms_fault(m,1); m->nseek++;
  if(f==4)return -1;
  if(whence==SEEK_SET)np=off; else if(whence==SEEK_CUR)np=m->pos+off; else np=m->len+off;
  if(np<0||np>m->len)return -1;
  m->pos=np; return 0;
}
static long ms_tell(void *src){
  memsrc *m=src; int f=ms_fault(m,2); m->ntell++;
  if(f==5)return -1;
  return m->pos;
}
static int ms_close(void *src){ memsrc *m=src; m->closed++; return 0; }
static ov_callbacks ms_callbacks(int seekable){
  ov_callbacks cb; cb.read_func=ms_read; cb.close_func=ms_close;
  cb.seek_func=seekable?ms_seek:NULL; cb.tell_func=seekable?ms_tell:NULL;
  return cb;
}
static void ms_init(memsrc *m,unsigned char *d,long n,int seekable){
  memset(m,0,sizeof *m); m->data=d; m->len=n; m->seekable=seekable; m->fault_at=-1;
}
#endif
