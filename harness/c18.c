/* stream c18: independent instances run concurrently / under heap perturbation must produce the same
   bytes and samples as when run alone.
   ops:
     case <id>
     run <solo|threads> <k>          followed by k job lines
     job enc <ch> <rate> <q> <n> <sig> <seed>
     job dec <ch> <rate> <q> <n> <sig> <seed> <nseeks>      encode, then vorbisfile decode with seeks
     job pkt <ch> <rate> <q> <n> <sig> <seed>               encode, then packet-API decode
   answer: one line per job:  job <i> kind=.. bytes=.. hash=.. pcm=.. pcmhash=..
*/
#include <pthread.h>
#include "mkstream.h"

typedef struct { char kind[8]; int ch; long rate; float q; long n; int sig; long seed; int nseeks;
                 long bytes; uint64_t hash; long pcm; uint64_t pcmhash; int rc; } c18_job;

static uint64_t fnv(uint64_t h,const void *p,long n){ const unsigned char *b=p; long i; for(i=0;i<n;i++){ h^=b[i]; h*=1099511628211ULL; } return h; }

/* thread-safe variant of mk_encode: no globals (own rng state, no packet log) */
static float c18_sample(c18_job *J,uint32_t *st,int ch,long i){
  uint32_t x;
  switch(J->sig){
  case 0: return 0.5f*sinf((float)i*(0.02f+0.013f*ch)+ch);
  case 1: x=*st; x^=x<<13; x^=x>>17; x^=x<<5; *st=x?x:1; return ((int)(x&0xffff)-32768)/40000.f;
  case 2: return 0.f;
  case 5: /* only channel 0 carries signal: tones with noise bursts (forces block switching); the others are digital silence */
    if(ch!=0) return 0.f;
    x=*st; x^=x<<13; x^=x>>17; x^=x<<5; *st=x?x:1;
    return 0.4f*sinf((float)i*0.031f)+(((i/7000)%2)?0.3f*(((int)(x&255)-128)/128.f):0.f);
  default: return (i%997==(ch*31))?0.9f:0.f;
  }
}
static int c18_encode(c18_job *J,buf_t *out){
  vorbis_info vi; vorbis_comment vc; vorbis_dsp_state vd; vorbis_block vb;
  ogg_stream_state os; ogg_page og; ogg_packet op,h0,h1,h2; long done=0; int eos=0; uint32_t st=(uint32_t)(J->seed*2654435761u+1u);
  if(!st)st=1;
  vorbis_info_init(&vi);
  if(vorbis_encode_init_vbr(&vi,J->ch,J->rate,J->q)){ vorbis_info_clear(&vi); return -1; }
  vorbis_comment_init(&vc); vorbis_comment_add_tag(&vc,"ENCODER","c18");
  vorbis_analysis_init(&vd,&vi); vorbis_block_init(&vd,&vb); ogg_stream_init(&os,J->seed&0xffff);
  vorbis_analysis_headerout(&vd,&vc,&h0,&h1,&h2);
  ogg_stream_packetin(&os,&h0); ogg_stream_packetin(&os,&h1); ogg_stream_packetin(&os,&h2);
  while(ogg_stream_flush(&os,&og)) buf_page(out,&og);
  while(!eos){
    long todo=J->n-done,i; int c;
    if(todo>1024)todo=1024;
    if(todo>0){ float **b=vorbis_analysis_buffer(&vd,todo); for(c=0;c<J->ch;c++)for(i=0;i<todo;i++)b[c][i]=c18_sample(J,&st,c,done+i); vorbis_analysis_wrote(&vd,todo); done+=todo; }
    else vorbis_analysis_wrote(&vd,0);
    while(vorbis_analysis_blockout(&vd,&vb)==1){
      vorbis_analysis(&vb,NULL); vorbis_bitrate_addblock(&vb);
      while(vorbis_bitrate_flushpacket(&vd,&op)){
        ogg_stream_packetin(&os,&op);
        while(ogg_stream_pageout(&os,&og)){ buf_page(out,&og); if(ogg_page_eos(&og))eos=1; }
      }
    }
    if(todo<=0&&!eos)break;
  }
  while(ogg_stream_flush(&os,&og)) buf_page(out,&og);
  ogg_stream_clear(&os); vorbis_block_clear(&vb); vorbis_dsp_clear(&vd); vorbis_comment_clear(&vc); vorbis_info_clear(&vi);
  return 0;
}
/* uninitialised automatic storage: the dead stack below the caller is filled with a pattern before the job runs (VERIF_STACK_POISON:
   1 = +inf doubles, 2 = -4.0, 3 = 0xA5 bytes); a result that depends on what an alloca or an automatic array held before it was
   written shows up as a difference between the patterns */
static __attribute__((noinline)) void c18_stack_poison(int kind){
  volatile double a[49152]; long i;
  if(kind==3){ volatile unsigned char *b=(volatile unsigned char*)a; for(i=0;i<(long)sizeof(a);i++)b[i]=0xA5; }
  else{ double v=kind==1?INFINITY:(kind==2?-4.0:0.0); for(i=0;i<49152;i++)a[i]=v; }
  __asm__ volatile("" :: "r"(a) : "memory");
}
/* ambient per-thread state: the read callback behaves like fread on a good stream (it never touches errno), and VERIF_ERRNO_POISON=<n>
   leaves errno=<n> behind before every vorbisfile call, the way any unrelated earlier call on the thread may have */
static size_t c18_read_quiet(void *ptr,size_t size,size_t nmemb,void *src){
  memsrc *m=src; long want=size*nmemb, left=m->len-m->pos;
  if(want>left)want=left;
  if(want<0)want=0;
  memcpy(ptr,m->data+m->pos,want); m->pos+=want;
  return want;
}
static ov_callbacks c18_callbacks(int seekable){ ov_callbacks cb=ms_callbacks(seekable); cb.read_func=c18_read_quiet; return cb; }
static int c18_errno_poison=0;
#define C18_AMBIENT() ((void)(c18_errno_poison?(errno=c18_errno_poison):0))
static void *c18_work(void *arg){
  c18_job *J=arg; buf_t out={0,0,0};
  { const char *sp=getenv("VERIF_STACK_POISON"); if(sp&&atoi(sp)>0)c18_stack_poison(atoi(sp)); }
  J->hash=14695981039346656037ULL; J->pcmhash=14695981039346656037ULL; J->pcm=0; J->bytes=0;
  J->rc=c18_encode(J,&out);
  if(J->rc){ free(out.p); return NULL; }
  J->bytes=out.n; J->hash=fnv(J->hash,out.p,out.n);
  /* every other job's file carries a few bytes after its last page (a tag, a cut-off copy): reads at the very end of the data happen */
  if(J->seed%2){ unsigned char junk[64]; memset(junk,0x55,sizeof junk); buf_add(&out,junk,1+J->seed%61); }
  if(!strcmp(J->kind,"dec")){
    OggVorbis_File vf; memsrc ms; float **pcm; int bs,k; long r; uint32_t st=(uint32_t)J->seed|1;
    ms_init(&ms,out.p,out.n,1);
    C18_AMBIENT();
    if(ov_open_callbacks(&ms,&vf,NULL,0,c18_callbacks(1))==0){
      ogg_int64_t total=ov_pcm_total(&vf,-1);
      for(k=0;k<=J->nseeks;k++){
        int cnt=0;
        while(cnt<6&&(C18_AMBIENT(),r=ov_read_float(&vf,&pcm,2000,&bs))>0){ int c; for(c=0;c<J->ch;c++)J->pcmhash=fnv(J->pcmhash,pcm[c],r*4); J->pcm+=r; cnt++; }
        st^=st<<13; st^=st>>17; st^=st<<5;
        C18_AMBIENT();
        if(total>0&&k<J->nseeks) ov_pcm_seek(&vf,st%total);
      }
      ov_clear(&vf);
    }
  }else if(!strcmp(J->kind,"pkt")){
    OggVorbis_File vf; memsrc ms; float **pcm; int bs; long r;
    ms_init(&ms,out.p,out.n,0);
    C18_AMBIENT();
    if(ov_open_callbacks(&ms,&vf,NULL,0,c18_callbacks(0))==0){
      while((C18_AMBIENT(),r=ov_read_float(&vf,&pcm,777,&bs))>0){ int c; for(c=0;c<J->ch;c++)J->pcmhash=fnv(J->pcmhash,pcm[c],r*4); J->pcm+=r; }
      ov_clear(&vf);
    }
  }
  free(out.p);
  return NULL;
}

static int c18_main(int argc,char **argv){
  char *line; char *tok[16];
  { const char *ep=getenv("VERIF_ERRNO_POISON"); c18_errno_poison=ep?atoi(ep):0; }   /* once, before any thread runs (a write per thread was a race of the harness's own) */
  while((line=readline_(stdin))){
    int n=split(line,tok,16);
    if(n==0){ free(line); continue; }
    if(!strcmp(tok[0],"case")){ printf("== case %s\n",n>1?tok[1]:"?"); fflush(stdout); case_watchdog(); }
    else if(!strcmp(tok[0],"run")&&n>=3){
      int threads=!strcmp(tok[1],"threads"); int k=atoi(tok[2]),i; c18_job *J=calloc(k,sizeof *J); pthread_t *T=calloc(k,sizeof *T);
      for(i=0;i<k;i++){
        char *l=readline_(stdin); char *t[16]; int m;
        if(!l)break;
        m=split(l,t,16);
        if(m>=8&&!strcmp(t[0],"job")){
          strncpy(J[i].kind,t[1],7); J[i].ch=atoi(t[2]); J[i].rate=atol(t[3]); J[i].q=atof(t[4]); J[i].n=atol(t[5]); J[i].sig=atoi(t[6]); J[i].seed=atol(t[7]);
          J[i].nseeks=m>=9?atoi(t[8]):0;
        }
        free(l);
      }
      if(threads){ for(i=0;i<k;i++)pthread_create(&T[i],NULL,c18_work,&J[i]); for(i=0;i<k;i++)pthread_join(T[i],NULL); }
      else for(i=0;i<k;i++)c18_work(&J[i]);
      for(i=0;i<k;i++)printf("job %d kind=%s rc=%d bytes=%ld hash=%016llx pcm=%ld pcmhash=%016llx\n",i,J[i].kind,J[i].rc,J[i].bytes,(unsigned long long)J[i].hash,J[i].pcm,(unsigned long long)J[i].pcmhash);
      free(J); free(T);
    }else printf("bad-op %s\n",tok[0]);
    free(line);
  }
  return 0;
}
