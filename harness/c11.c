/* stream c11: locality of the decoder (lib/block.c, synthesis.c, mapping0.c, res0.c, floor1.c)
   ops:
     case <id>
     setup <ch> <rate> <q> <hs>      real encoder headers -> decoder (half-rate flag hs); prints n0 n1 and both window tables
     blk <W>                         vorbis_synthesis_blockin with a marker block: vb->pcm[c][j] = k*16384 + j + 1 (k counts blocks)
     restart                         vorbis_synthesis_restart
     real <ch> <rate> <q> <sig> <seed> <n>     encode a stream, keep its packets, decode it cleanly
     fault <kind> <j> [<arg> [<vis>]]  (vis>0: only every vis-th packet keeps its granule position, as after Ogg paging) decode again with packet j dropped / duplicated / truncated to <arg> bytes / bit <arg> flipped /
                                     or decoding restarted at j (7: restarted, and vorbis_synthesis_lapout called after packet j+1); report which packets' output differs from the clean decode
*/
#include "mkstream.h"

typedef struct { unsigned char *p; long n; ogg_int64_t gp; long eos; ogg_int64_t no; } c11_pk;
static c11_pk *c11_pkts=NULL; static long c11_npk=0; static ogg_packet c11_h[3]; static unsigned char *c11_hbuf[3];
static uint64_t *c11_clean_hash=NULL; static long *c11_clean_cnt=NULL; static int c11_ch=0;

static uint64_t c11_fnv(uint64_t h,const void *p,long n){ const unsigned char *b=p; long i; for(i=0;i<n;i++){ h^=b[i]; h*=1099511628211ULL; } return h; }

/* decode the stored stream with one disturbance; fills hash/cnt per ORIGINAL packet index (the output produced when that packet went in) */
static void c11_decode(int kind,long j,long arg,long vis,uint64_t *hash,long *cnt,int *rcs){
  vorbis_info vi; vorbis_comment vc; vorbis_dsp_state vd; vorbis_block vb; long k; int i;
  vorbis_info_init(&vi); vorbis_comment_init(&vc);
  for(i=0;i<3;i++) vorbis_synthesis_headerin(&vi,&vc,&c11_h[i]);
  vorbis_synthesis_init(&vd,&vi); vorbis_block_init(&vd,&vb);
  for(k=0;k<c11_npk;k++){
    ogg_packet op; unsigned char *tmp=NULL; int reps=1,r; float **pcm; long n;
    hash[k]=14695981039346656037ULL; cnt[k]=0; rcs[k]=0;
    memset(&op,0,sizeof op); op.packet=c11_pkts[k].p; op.bytes=c11_pkts[k].n; op.granulepos=c11_pkts[k].gp; op.e_o_s=c11_pkts[k].eos; op.packetno=c11_pkts[k].no;
    if(vis>0&&!op.e_o_s&&(k%vis)!=vis-1)op.granulepos=-1;      /* as a demuxer delivers them: only the packet ending a page (every vis-th here) has a granule position */
    if(k==j){
      if(kind==1){ rcs[k]=-1; continue; }                       /* drop */
      if(kind==2) reps=2;                                        /* duplicate */
      if(kind==3){ if(arg<op.bytes)op.bytes=arg; }              /* truncate */
      if(kind==4&&op.bytes>0){ tmp=malloc(op.bytes); memcpy(tmp,op.packet,op.bytes); tmp[(arg/8)%op.bytes]^=(1<<(arg%8)); op.packet=tmp; } /* bit flip */
      if(kind==5||kind==7){ vorbis_synthesis_restart(&vd); }    /* restart here (7: and ask for the lapping view after the next packet, see below) */
      if(kind==6){ vorbis_block_clear(&vb); vorbis_block_init(&vd,&vb); vorbis_synthesis_restart(&vd); } /* fresh block + restart */
    }
    for(r=0;r<reps;r++){
      int rc=vorbis_synthesis(&vb,&op);
      rcs[k]=rc;
      if(rc==0){
        vorbis_synthesis_blockin(&vd,&vb);
        /* what a cross-lapping application (or a lapped seek) does after priming two packets: vorbis_synthesis_lapout rearranges the
           buffer into one contiguous view; it consumes nothing, so everything returned afterwards must be what it would have been */
        if(kind==7&&k==j+1){ float **lp; vorbis_synthesis_lapout(&vd,&lp); }
        while((n=vorbis_synthesis_pcmout(&vd,&pcm))>0){ int c; for(c=0;c<c11_ch;c++)hash[k]=c11_fnv(hash[k],pcm[c],n*4); cnt[k]+=n; vorbis_synthesis_read(&vd,n); }
      }
    }
    free(tmp);
  }
  vorbis_block_clear(&vb); vorbis_dsp_clear(&vd); vorbis_comment_clear(&vc); vorbis_info_clear(&vi);
}

static int c11_main(int argc,char **argv){
  char *line; char *tok[16];
  vorbis_info vi; vorbis_comment vc; vorbis_dsp_state vd; vorbis_block vb; int live=0; long blk=0; float **marks=NULL; int ch=0; long bs1=0;
  while((line=readline_(stdin))){
    int n=split(line,tok,16);
    if(n==0){ free(line); continue; }
    if(!strcmp(tok[0],"case")){ printf("== case %s\n",n>1?tok[1]:"?"); fflush(stdout); case_watchdog(); }
    else if(!strcmp(tok[0],"setup")&&n>=5){
      vorbis_info evi; vorbis_dsp_state evd; vorbis_comment evc; ogg_packet h0,h1,h2; int rc,i,hs=atoi(tok[4]); codec_setup_info *ci;
      if(live){ vb.pcm=NULL; vorbis_block_clear(&vb); vorbis_dsp_clear(&vd); vorbis_comment_clear(&vc); vorbis_info_clear(&vi); live=0; }
      ch=atoi(tok[1]);
      vorbis_info_init(&evi); rc=vorbis_encode_init_vbr(&evi,ch,atol(tok[2]),atof(tok[3]));
      if(rc){ printf("setup rc=%s\n",ovname(rc)); vorbis_info_clear(&evi); free(line); continue; }
      vorbis_comment_init(&evc); vorbis_analysis_init(&evd,&evi); vorbis_analysis_headerout(&evd,&evc,&h0,&h1,&h2);
      vorbis_info_init(&vi); vorbis_comment_init(&vc);
      vorbis_synthesis_headerin(&vi,&vc,&h0); vorbis_synthesis_headerin(&vi,&vc,&h1); vorbis_synthesis_headerin(&vi,&vc,&h2);
      vorbis_dsp_clear(&evd); vorbis_comment_clear(&evc); vorbis_info_clear(&evi);
      if(hs) hs=(vorbis_synthesis_halfrate(&vi,1)==0);
      vorbis_synthesis_init(&vd,&vi); vorbis_block_init(&vd,&vb); live=1; blk=0;
      ci=vi.codec_setup; bs1=ci->blocksizes[1];
      printf("setup rc=0 hs=%d n0=%ld n1=%ld",hs,ci->blocksizes[0]>>(hs+1),ci->blocksizes[1]>>(hs+1));
      for(i=0;i<2;i++){ const float *w=vorbis_window(&vd,i); long wn=ci->blocksizes[i]>>(hs+1),k2; printf(" win%d=",i); for(k2=0;k2<wn;k2++){ uint32_t b; memcpy(&b,&w[k2],4); printf("%08x",b); } }
      putchar('\n');
      if(marks){ for(i=0;marks[i];i++)free(marks[i]); free(marks); }
      marks=calloc(ch+1,sizeof(*marks)); for(i=0;i<ch;i++)marks[i]=malloc(sizeof(float)*bs1);
    }else if(!strcmp(tok[0],"blk")&&live){
      int W=atoi(tok[1]),c; long j2,cnt; float **pcm; int brc; codec_setup_info *ci=vi.codec_setup;
      long pe=ci->blocksizes[W]>>ci->halfrate_flag;
      for(c=0;c<ch;c++)for(j2=0;j2<pe;j2++)marks[c][j2]=(float)(blk*16384+j2+1+c*4194304);
      vb.W=W; vb.pcm=marks; vb.pcmend=pe; vb.sequence=blk+3; vb.granulepos=-1; vb.eofflag=0; vb.vd=&vd;
      brc=vorbis_synthesis_blockin(&vd,&vb);
      cnt=vorbis_synthesis_pcmout(&vd,&pcm);
      printf("out k=%ld brc=%d n=%ld v=",blk,brc,cnt);
      for(j2=0;j2<cnt;j2++){ uint32_t b; memcpy(&b,&pcm[ch-1][j2],4); printf("%08x",b); }
      if(cnt<=0)putchar('-');
      putchar('\n');
      vorbis_synthesis_read(&vd,cnt);
      blk++;
    }else if(!strcmp(tok[0],"restart")&&live){
      printf("restart rc=%d\n",vorbis_synthesis_restart(&vd));
    }else if(!strcmp(tok[0],"real")&&n>=7){
      vorbis_info evi; vorbis_comment evc; vorbis_dsp_state evd; vorbis_block evb; ogg_packet op; mk_params P; int rc,i,eos=0; long total=atol(tok[6]),done=0;
      int *rcs;
      for(i=0;i<c11_npk;i++)free(c11_pkts[i].p);
      c11_npk=0; c11_ch=atoi(tok[1]);
      memset(&P,0,sizeof P); P.channels=c11_ch; P.sig=atoi(tok[4]);
      mk_rng_state=(uint32_t)(atol(tok[5])*2654435761u+3u); if(!mk_rng_state)mk_rng_state=1;
      vorbis_info_init(&evi); rc=vorbis_encode_init_vbr(&evi,c11_ch,atol(tok[2]),atof(tok[3]));
      if(rc){ printf("real rc=%s\n",ovname(rc)); vorbis_info_clear(&evi); free(line); continue; }
      vorbis_comment_init(&evc); vorbis_analysis_init(&evd,&evi); vorbis_block_init(&evd,&evb);
      vorbis_analysis_headerout(&evd,&evc,&c11_h[0],&c11_h[1],&c11_h[2]);
      for(i=0;i<3;i++){ free(c11_hbuf[i]); c11_hbuf[i]=malloc(c11_h[i].bytes); memcpy(c11_hbuf[i],c11_h[i].packet,c11_h[i].bytes); c11_h[i].packet=c11_hbuf[i]; }
      while(!eos){
        long todo=total-done,k2; int c;
        if(todo>2048)todo=2048;
        if(todo>0){ float **b=vorbis_analysis_buffer(&evd,todo); for(c=0;c<c11_ch;c++)for(k2=0;k2<todo;k2++){ float v=mk_sample(&P,c,done+k2); if(P.sig==5)v=(c==0)?(mk_sample(&P,0,done+k2)+(((done+k2)/9000)%2?0.3f*(((int)(mk_rand()&255)-128)/128.f):0)):0.f; b[c][k2]=v; } vorbis_analysis_wrote(&evd,todo); done+=todo; }
        else vorbis_analysis_wrote(&evd,0);
        while(vorbis_analysis_blockout(&evd,&evb)==1){
          vorbis_analysis(&evb,NULL); vorbis_bitrate_addblock(&evb);
          while(vorbis_bitrate_flushpacket(&evd,&op)){
            c11_pkts=realloc(c11_pkts,sizeof(*c11_pkts)*(c11_npk+1));
            c11_pkts[c11_npk].p=malloc(op.bytes+1); memcpy(c11_pkts[c11_npk].p,op.packet,op.bytes); c11_pkts[c11_npk].n=op.bytes;
            c11_pkts[c11_npk].gp=op.granulepos; c11_pkts[c11_npk].eos=op.e_o_s; c11_pkts[c11_npk].no=op.packetno; c11_npk++;
            if(op.e_o_s)eos=1;
          }
        }
        if(todo<=0&&!eos)break;
      }
      vorbis_block_clear(&evb); vorbis_dsp_clear(&evd); vorbis_comment_clear(&evc); vorbis_info_clear(&evi);
      free(c11_clean_hash); free(c11_clean_cnt);
      c11_clean_hash=malloc(sizeof(uint64_t)*(c11_npk+1)); c11_clean_cnt=malloc(sizeof(long)*(c11_npk+1)); rcs=malloc(sizeof(int)*(c11_npk+1));
      c11_decode(0,-1,0,0,c11_clean_hash,c11_clean_cnt,rcs);
      { long tot=0; for(i=0;i<c11_npk;i++)tot+=c11_clean_cnt[i]; printf("real rc=0 packets=%ld samples=%ld\n",c11_npk,tot); }
      free(rcs);
    }else if(!strcmp(tok[0],"fault")&&n>=3&&c11_npk>0){
      int kind=atoi(tok[1]); long j=atol(tok[2]),arg=n>=4?atol(tok[3]):0,vis=n>=5?atol(tok[4]):0,k2; uint64_t *h=malloc(sizeof(uint64_t)*(c11_npk+1)); long *cn=malloc(sizeof(long)*(c11_npk+1)); int *rcs=malloc(sizeof(int)*(c11_npk+1));
      long lastbad=-1,nbad=0;
      if(j>=c11_npk)j=c11_npk-1;
      c11_decode(kind,j,arg,vis,h,cn,rcs);
      printf("fault kind=%d j=%ld vis=%ld rc_j=%s changed=",kind,j,vis,ovname(rcs[j]));
      for(k2=0;k2<c11_npk;k2++) if(h[k2]!=c11_clean_hash[k2]||cn[k2]!=c11_clean_cnt[k2]){ printf("%s%ld",nbad?",":"",k2); nbad++; lastbad=k2; }
      if(!nbad)putchar('-');
      printf(" lastbad=%ld packets=%ld\n",lastbad,c11_npk);
      free(h); free(cn); free(rcs);
    }else printf("skipped %s\n",tok[0]);
    free(line);
  }
  if(live){ vb.pcm=NULL; vorbis_block_clear(&vb); vorbis_dsp_clear(&vd); vorbis_comment_clear(&vc); vorbis_info_clear(&vi); }
  return 0;
}
