/* stream c05: what the encoder emits is decodable bit for bit (lib/info.c, vorbisenc.c, mapping0.c, floor1.c,
   res0.c, codebook.c, bitrate.c, synthesis.c)
   ops:
     case <id>
     enc <ch> <rate> <q|m<max>:<nom>:<min>[:res:bias]> <sig> <seed> <n> [d]      d: packets taken straight from vorbis_analysis(vb,&op) (unmanaged streams)
   answers:
     info rc=.. ch=.. rate=.. bs0=.. bs1=.. br=u,n,l managed=.. hardmax=..
     op hdr 1 <hex> / op hdr 0 <hex> ...           the c02-stream operations a model replay needs
     hdr rc=...                                     the C decoder's answers in c02 format
     op pkt <hex> <gp> <eos> <seq>
     pkt rc=0 W=.. lW=.. nW=.. brc=.. n=..
     x bits=<consumed> bytes=<len> dead=<0|1>       oracle data for the packet just decoded
     totals packets=.. samples=..
*/
#include "mkstream.h"

static int c05_main(int argc,char **argv){
  char *line; char *tok[16];
  while((line=readline_(stdin))){
    int n=split(line,tok,16);
    if(n==0){ free(line); continue; }
    if(!strcmp(tok[0],"case")){ printf("== case %s\n",n>1?tok[1]:"?"); fflush(stdout); case_watchdog(); }
    else if(!strcmp(tok[0],"enc")&&n>=7){
      vorbis_info vi,dvi; vorbis_comment vc,dvc; vorbis_dsp_state vd,dvd; vorbis_block vb,dvb; ogg_packet op,h[3];
      mk_params P; int rc,k,eos=0,managed=0,hardmax=0; long total=atol(tok[6]),done=0,npk=0,samples=0; int ch=atoi(tok[1]); long rate=atol(tok[2]);
      memset(&P,0,sizeof P); P.channels=ch; P.sig=atoi(tok[4]);
      mk_rng_state=(uint32_t)(atol(tok[5])*2654435761u+5u); if(!mk_rng_state)mk_rng_state=1;
      vorbis_info_init(&vi);
      if(tok[3][0]=='m'){
        long mx=-1,nom=-1,mn=-1,res=-1; double bias=-1; char *s=tok[3]+1;
        sscanf(s,"%ld:%ld:%ld:%ld:%lf",&mx,&nom,&mn,&res,&bias);
        rc=vorbis_encode_setup_managed(&vi,ch,rate,mx,nom,mn);
        if(!rc&&res>=0){
          struct ovectl_ratemanage2_arg ai; vorbis_encode_ctl(&vi,OV_ECTL_RATEMANAGE2_GET,&ai);
          ai.bitrate_limit_reservoir_bits=res; if(bias>=0)ai.bitrate_limit_reservoir_bias=bias;
          rc=vorbis_encode_ctl(&vi,OV_ECTL_RATEMANAGE2_SET,&ai);
        }
        if(!rc)rc=vorbis_encode_setup_init(&vi);
        managed=1; hardmax=(mx>0);
      }else rc=vorbis_encode_init_vbr(&vi,ch,rate,atof(tok[3]));
      if(rc){ printf("info rc=%s\n",ovname(rc)); vorbis_info_clear(&vi); free(line); continue; }
      {
        codec_setup_info *ci=vi.codec_setup;
        printf("info rc=0 ch=%d rate=%ld bs0=%ld bs1=%ld br=%ld,%ld,%ld managed=%d hardmax=%d\n",vi.channels,vi.rate,ci->blocksizes[0],ci->blocksizes[1],
               vi.bitrate_upper,vi.bitrate_nominal,vi.bitrate_lower,managed,hardmax);
      }
      vorbis_comment_init(&vc); vorbis_comment_add_tag(&vc,"TITLE","c05"); vorbis_comment_add(&vc,"");
      vorbis_analysis_init(&vd,&vi); vorbis_block_init(&vd,&vb);
      rc=vorbis_analysis_headerout(&vd,&vc,&h[0],&h[1],&h[2]);
      vorbis_info_init(&dvi); vorbis_comment_init(&dvc);
      for(k=0;k<3&&rc==0;k++){
        int hrc;
        printf("op hdr %d ",k==0); puthex(h[k].packet,h[k].bytes); putchar('\n');
        hrc=vorbis_synthesis_headerin(&dvi,&dvc,&h[k]);
        printf("hdr rc=%s",ovname(hrc));
        if(hrc==0&&k==0) printf(" ch=%d rate=%ld bs0=%ld bs1=%ld br=%ld,%ld,%ld",dvi.channels,dvi.rate,((codec_setup_info*)dvi.codec_setup)->blocksizes[0],((codec_setup_info*)dvi.codec_setup)->blocksizes[1],dvi.bitrate_upper,dvi.bitrate_nominal,dvi.bitrate_lower);
        putchar('\n');
        if(hrc){ rc=hrc; }
      }
      if(rc==0){
        int irc=vorbis_synthesis_init(&dvd,&dvi);
        printf("op init\ninit rc=%d\n",irc);
        if(irc==0) vorbis_block_init(&dvd,&dvb); else rc=irc;
      }
      while(!eos&&rc==0){
        long todo=total-done,i; int c;
        if(todo>4096)todo=4096;
        if(todo>0){ float **b=vorbis_analysis_buffer(&vd,todo); for(c=0;c<ch;c++)for(i=0;i<todo;i++){ float v=mk_sample(&P,c,done+i); if(P.sig==5)v=(c==0)?v:0.f; if(P.sig==6)v*=1e-38f; if(P.sig==7)v*=10.f;
          if(P.sig==8||P.sig==9){ /* strongly tonal: a harmonic complex (partials k*300 Hz, amplitudes 1/k), within +-1 or three times that: residue vectors that sit on the grid of the sparse books */
            int k2; double x=0,t=(double)(done+i)/(double)rate; for(k2=1;k2<=11&&k2*300.0<rate/2.0;k2++)x+=sin(6.283185307179586*(300.0*k2+7.0*c)*t)/k2; v=(float)(x*(P.sig==8?0.3:1.0)); }
          b[c][i]=v; } vorbis_analysis_wrote(&vd,todo); done+=todo; }
        else vorbis_analysis_wrote(&vd,0);
        while(vorbis_analysis_blockout(&vd,&vb)==1){
          /* two documented ways to get the packet of a block: through the rate manager (addblock/flushpacket), or, on an unmanaged stream,
             straight from vorbis_analysis(vb,&op) — token 8 = 'd' takes the second */
          int direct=(n>=8&&tok[7][0]=='d'&&!managed),got;
          if(direct) got=(vorbis_analysis(&vb,&op)==0);
          else{ vorbis_analysis(&vb,NULL); vorbis_bitrate_addblock(&vb); got=vorbis_bitrate_flushpacket(&vd,&op); }
          for(;got;got=direct?0:vorbis_bitrate_flushpacket(&vd,&op)){
            int drc,brc=-999; long cnt=-1; float **pcm; long bits=-1; int dead=0;
            npk++;
            printf("op pkt "); puthex(op.packet,op.bytes); printf(" %lld %ld %lld\n",(long long)op.granulepos,(long)op.e_o_s,(long long)op.packetno);
            drc=vorbis_synthesis(&dvb,&op);
            printf("pkt rc=%s",ovname(drc));
            if(drc==0){
              bits=oggpack_bits(&dvb.opb); dead=(dvb.opb.ptr==NULL);
              printf(" W=%ld lW=%ld nW=%ld",dvb.W,dvb.lW,dvb.nW);
              brc=vorbis_synthesis_blockin(&dvd,&dvb); cnt=vorbis_synthesis_pcmout(&dvd,&pcm);
              if(cnt>0){ int c; long i; for(c=0;c<ch;c++)for(i=0;i<cnt;i++) if(!(pcm[c][i]==pcm[c][i])||pcm[c][i]>1e30f||pcm[c][i]<-1e30f){ dead|=2; } samples+=cnt; }
              vorbis_synthesis_read(&dvd,cnt);
              printf(" brc=%s n=%ld",ovname(brc),cnt);
            }
            printf("\nx bits=%ld bytes=%ld dead=%d eos=%ld\n",bits,op.bytes,dead,(long)op.e_o_s);
            if(op.e_o_s)eos=1;
          }
        }
        if(todo<=0&&!eos)break;
      }
      printf("totals packets=%ld samples=%ld submitted=%ld eos=%d\n",npk,samples,total,eos);
      if(rc==0){ vorbis_block_clear(&dvb); vorbis_dsp_clear(&dvd); }
      vorbis_comment_clear(&dvc); vorbis_info_clear(&dvi);
      vorbis_block_clear(&vb); vorbis_dsp_clear(&vd); vorbis_comment_clear(&vc); vorbis_info_clear(&vi);
    }else printf("bad-op %s\n",tok[0]);
    free(line);
  }
  return 0;
}
