/* vharn: correspondence / oracle harness. One binary, one sub-command ("stream") per property.
   Reads operation lines on stdin, answers on stdout in the canonical form the Lean driver
   (lean/Main.lean) produces for the same lines. Built from /repo's working tree by tools/vlib.py. */
#include "common.h"
#include "alloc.h"

#include "c16.c"
#include "c17.c"
#include "c14.c"
#include "c04.c"
#include "c02.c"
#include "c18.c"
#include "c15.c"
#include "c05.c"
#include "c11.c"
#include "c07.c"
#include "c06.c"
#include "c01.c"

int main(int argc,char **argv){
  if(argc<2){ fprintf(stderr,"usage: vharn <stream>\n"); return 2; }
  setvbuf(stdout,NULL,_IOFBF,1<<20);
  if(!strcmp(argv[1],"c16")) return c16_main(argc-1,argv+1);
  if(!strcmp(argv[1],"c17")) return c17_main(argc-1,argv+1);
  if(!strcmp(argv[1],"c14")) return c14_main(argc-1,argv+1);
  if(!strcmp(argv[1],"c04")) return c04_main(argc-1,argv+1);
  if(!strcmp(argv[1],"c02")) return c02_main(argc-1,argv+1);
  if(!strcmp(argv[1],"c18")) return c18_main(argc-1,argv+1);
  if(!strcmp(argv[1],"c15")) return c15_main(argc-1,argv+1);
  if(!strcmp(argv[1],"c05")) return c05_main(argc-1,argv+1);
  if(!strcmp(argv[1],"c11")) return c11_main(argc-1,argv+1);
  if(!strcmp(argv[1],"c07")) return c07_main(argc-1,argv+1);
  if(!strcmp(argv[1],"c06")) return c06_main(argc-1,argv+1);
  if(!strcmp(argv[1],"c01")) return c01_main(argc-1,argv+1);
  fprintf(stderr,"vharn: unknown stream %s\n",argv[1]);
  return 2;
}
