/* lib/vorbisenc.c compiled as part of the harness (instead of vorbisenc.o) so that the static
   set-up template list can be enumerated without a source hook */
#include "vorbisenc.c"
const void *c15_setup_list(int i){
  int n=0; while(setup_list[n])n++;
  return (i>=0&&i<n)?setup_list[i]:0;
}
